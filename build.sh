#!/bin/bash
# build.sh [repo] — instrument <repo> (default /repo) and build the simulator
# binary into /verif/.cache/<treehash>/sim ; prints the binary path on the last line.
set -euo pipefail
export GOFLAGS=-mod=mod GOPROXY=off GOSUMDB=off GOTOOLCHAIN=local
VERIF=$(cd "$(dirname "$0")" && pwd)
REPO=${1:-${VERIF_REPO:-/repo}}
PKGS=utils,utils/io,utils/log,catalog,executor,executor/buffile,executor/wal,planner,plugins/trigger,frontend,replication,internal/di,contrib/ondiskagg/aggtrigger,cmd/connect/loader
RACE=${VERIF_RACE:-0}
# tree hash: every .go file + go.mod/go.sum in repo, plus harness + instrumenter sources
H=$( (cd "$REPO" && find . -name '*.go' -not -path './zzverif/*' -o -name go.mod -o -name go.sum | LC_ALL=C sort | xargs sha256sum; \
      cd "$VERIF" && find sim inject tools build.sh -type f \( -name '*.go' -o -name 'go.mod' -o -name 'go.sum' -o -name build.sh \) | LC_ALL=C sort | xargs sha256sum) | sha256sum | cut -c1-20)
OUT="$VERIF/.cache/$H"
BIN="$OUT/sim"
[ "$RACE" = 1 ] && BIN="$OUT/sim-race"
if [ -x "$BIN" ]; then echo "$BIN"; exit 0; fi
mkdir -p "$VERIF/.cache" "$VERIF/bin"
# keep the cache small: drop other trees' entries
# (keep the four most recently used: concurrent checks of other trees may still be running from them)
{ ls -1dt "$VERIF"/.cache/*/ 2>/dev/null || true; } | tail -n +5 | while read -r d; do [ "${d%/}" != "$OUT" ] && rm -rf "$d"; done
mkdir -p "$OUT"
LOCK="$VERIF/.cache/build.lock"
exec 9>"$LOCK"
flock 9
if [ -x "$BIN" ]; then echo "$BIN"; exit 0; fi
if [ ! -x "$VERIF/bin/instrument" ] || [ "$VERIF/tools/instrument/main.go" -nt "$VERIF/bin/instrument" ]; then
  (cd "$VERIF/tools" && go build -o "$VERIF/bin/instrument" ./instrument) >&2
fi
SCR=$(mktemp -d /dev/shm/verif-build.XXXXXX)
trap 'rm -rf "$SCR"' EXIT
"$VERIF/bin/instrument" -repo "$REPO" -out "$SCR/ov" -sim "$VERIF/sim" -inject "$VERIF/inject" -pkgs "$PKGS" > "$OUT/instrument.log" 2> "$OUT/instrument.err" || { cat "$OUT/instrument.err" >&2; echo "instrumentation failed" >&2; exit 2; }
cp "$REPO/go.mod" "$SCR/go.mod"; cp "$REPO/go.sum" "$SCR/go.sum"
cat >> "$SCR/go.mod" <<EOM

require github.com/anishathalye/porcupine v1.3.0
EOM
cat "$VERIF/tools/extra.sum" >> "$SCR/go.sum" 2>/dev/null || true
FLAGS=""
# race build: the simulator's own packages are compiled without race instrumentation (the baton
# scheduler orders their accesses; only the code under test is of interest)
[ "$RACE" = 1 ] && FLAGS="-race -gcflags=github.com/alpacahq/marketstore/v4/zzverif/...=-race=false"
(cd "$REPO" && go build $FLAGS -overlay "$SCR/ov/overlay.json" -modfile "$SCR/go.mod" -o "$BIN" ./zzverif/cmd/sim) >&2 || { echo "build failed" >&2; exit 2; }
echo "$BIN"
