# Per-property metadata used by vcheck for budgets and evidence files.

COMPONENTS = {
    "real_code": [
        "catalog", "planner", "executor (writer, WAL, replay, cleaner, scanner, variable reader, trigger dispatcher)",
        "frontend.DataService (Write/Query/Create/Destroy/GetInfo/ListSymbols)", "internal/di wiring (startup recovery)",
        "replication sender/server/receiver/replayer/retryer", "contrib/ondiskagg/aggtrigger", "cmd/connect/loader",
        "utils/io (headers, row/column series, time index)",
    ],
    "stubbed": [
        "file layer (simos: in-memory disk with operation log)", "syscall.Sync (barrier record)",
        "clock and timers (simrt virtual time)", "goroutine scheduling, channels, select, sync primitives (simrt)",
        "map iteration order (seeded)", "gRPC transport (simulated stream)", "HTTP/msgpack RPC layer (DataService called directly)",
        ".so plugin loader (triggers injected as Go values)", "zap log output (Fatal becomes a panic sentinel)",
    ],
}

ASSUMPTIONS_COMMON = [
    "instrumentation: os/time/sync/go/chan/select/map-range in marketstore packages are rewritten at build time to simos/simrt (go build -overlay); len(chan) and reads of shared boolean/integer flags are scheduling points too; code between two yield points runs atomically",
    "the seeded generator and schedule tape sample the space; a clean batch is evidence, not proof",
]

A_KILL = "process-kill model: every completed write(2)/truncate/rename/unlink survives (page cache intact); crash points are prefixes of the mutating-operation log"
A_POWER = "power-loss model: data written after the file's last fsync or the last sync(2) may be dropped or torn at 512-byte sectors; namespace operations (create/mkdir/rename/unlink) are durable at once (A-meta)"

CRASH_RULE = ("histories generated from the seed (1-4 buckets, fixed+variable, 3 years, repeated intervals, multi-request writes, "
              "sleeps letting checkpoints/WAL truncation happen, graceful restarts, 1-3 crash lifetimes; 25%: a forced WAL rotation in the middle of the history; "
              "20%: a bucket destroyed and re-created under the same key with another schema in the last lifetime; 60%: small read chunks (recordsPerRead knob)); for each lifetime EVERY prefix of the "
              "file-mutating operation log is turned into a disk image and the real startup recovery is run on it; "
              "distinct_nontrivial = distinct image content hashes on which recovery had to write to a primary file (replay had work)")

PROPS = {
    "C01": {
        "level": "fault_enumeration", "engine": "CRASH",
        "rule": CRASH_RULE,
        "faults": ["process kill at every syscall prefix", "restart with WAL replay", "repeated crash (up to 3 lifetimes)", "virtual-time checkpoints and WAL truncation"],
        "assumptions": [A_KILL, "single client task so that 'acknowledged' is unambiguous; buckets whose live (uncrashed) content already disagrees with the model are excluded (they belong to C08/C09) and counted as 'taint'"],
        "explanation": "oracle: every interval's last acknowledged fixed write (or the in-flight write's value) is returned; every acknowledged variable record is present",
        "budget": {"quick": 40, "thorough": 600},
    },
    "C02": {
        "level": "fault_enumeration", "engine": "CRASH",
        "rule": CRASH_RULE,
        "faults": ["process kill at every syscall prefix", "restart with WAL replay", "repeated crash"],
        "assumptions": [A_KILL],
        "explanation": "oracle: recovered rows are a sub-multiset of issued rows, variable records appear exactly as often as written, each in-flight request is all-or-nothing",
        "budget": {"quick": 40, "thorough": 600},
    },
    "C03": {
        "level": "fault_enumeration", "engine": "CRASH",
        "rule": CRASH_RULE,
        "faults": ["process kill at every syscall prefix", "power loss at every syscall prefix (35% of the histories): dropped and torn un-synced writes", "restart", "repeated crash (crash during recovery of an earlier crash)"],
        "assumptions": [A_KILL, A_POWER],
        "explanation": "oracle: startup returns without panic/fatal; every bucket whose creation completed before the crash answers an all-time query",
        "budget": {"quick": 40, "thorough": 600},
    },
    "C04": {
        "level": "fault_enumeration", "engine": "CRASH",
        "rule": CRASH_RULE + "; at every crash point the bounded family of power-loss images: nothing un-synced kept, WAL-only, primary-only, index-only, data-only, each single op dropped / kept alone (<=10), and random subsets with sector tears",
        "faults": ["power loss at every syscall prefix", "dropped un-synced writes", "torn writes (512-byte sectors)", "restart with WAL replay"],
        "assumptions": [A_POWER],
        "explanation": "oracle as C01 on power-loss images",
        "budget": {"quick": 50, "thorough": 900},
    },
}

MODEL_RULE = ("sequential histories generated from the seed and executed against the real server inside the simulator (virtual clock, "
              "background WAL writer on/off, graceful restarts and sleeps as operations), checked after every write/restart against the reference model; "
              "distinct_nontrivial = distinct history shapes (record kind, timeframe, row count, years spanned, column-type multiset)")
A_MODEL = "fault-free configuration (no crash, no injected I/O fault): restarts are graceful; the model knows nothing of the on-disk format"

PROPS.update({
    "C08": {
        "level": "exploration", "engine": "MODEL", "rule": MODEL_RULE,
        "faults": ["none (fault-free configuration)", "graceful restart", "virtual-time ticker flush/checkpoint"],
        "assumptions": [A_MODEL],
        "explanation": "oracle: all-time query = last-writer-wins interval map: one row per written interval, ascending, stamped with the interval start, values of the last write; all timeframes 1Sec..1D, all fixed-width types, unsorted input, duplicates, year edges, leap day",
        "budget": {"quick": 40, "thorough": 600},
    },
    "C11": {
        "level": "exploration", "engine": "MODEL",
        "rule": ("a stored history (fixed and variable buckets, 3 years, gaps) is written through the real write path inside the simulator; then "
                 "25 (quick) / 120 (thorough) (start,end) pairs per bucket at nanosecond precision are drawn from instants around every stored row "
                 "(the row itself, +-1ns, interval start/end, mid-interval), year edges, before/after all data, 15% inverted; "
                 "distinct_nontrivial = distinct (kind, timeframe, #expected rows, #stored rows, range shape: inverted/before/after/cross-year/mid-start/mid-end)"),
        "faults": ["none (fault-free configuration)", "background WAL writer on/off"],
        "assumptions": [A_MODEL, "the oracle is the unrestricted query of the same server, filtered by the property's rule (no model of the scanner); an error response is accepted only when the expected result is empty"],
        "explanation": "oracle: ranged result == rows of the all-time result with start <= t <= end (variable, full precision) or interval-start-of(start) <= t <= end (fixed), same order",
        "budget": {"quick": 35, "thorough": 600},
    },
    "C12": {
        "level": "exploration", "engine": "MODEL",
        "rule": ("stored histories as C11; per bucket 20 (quick) / 100 (thorough) queries: a range (70%) or all time, N in 1..rows+2, first/last; "
                 "distinct_nontrivial = distinct (kind, timeframe, direction, N, #rows, ranged)"),
        "faults": ["none (fault-free configuration)"],
        "assumptions": [A_MODEL, "the oracle is the unlimited query of the same range on the same server"],
        "explanation": "oracle: limited result == first/last N rows of the unlimited result of the same range",
        "budget": {"quick": 35, "thorough": 600},
    },
    "C13": {
        "level": "exploration", "engine": "MODEL",
        "rule": ("2-4 symbols of one (timeframe, attribute group), same schema in 70% of runs, written through the real write path; queries: all symbols listed, "
                 "a subset, '*', and per symbol a column projection (random subset, 25% with an unknown name, 25% with a duplicate); "
                 "distinct_nontrivial = distinct (kind, timeframe, query form, #symbols, same-schema) and projection shapes"),
        "faults": ["none (fault-free configuration)"],
        "assumptions": [A_MODEL, "a multi-symbol query over symbols with different column names may be refused (documented restriction) and is not counted"],
        "explanation": "oracle: per symbol, rows of the multi-symbol query == rows of the single query; projected query has the same rows/times, exactly the requested existing columns, same values",
        "budget": {"quick": 35, "thorough": 600},
    },
    "C14": {
        "level": "exploration", "engine": "MODEL",
        "rule": ("2-3 buckets (fixed or variable, all element types) with a baseline history; then one scenario request: missing / extra / renamed column (must be rejected), "
                 "reordered columns and a retyped column (match by name: must be accepted, values by name / numerically converted), or one dataset naming several buckets of which "
                 "one does not match (must be rejected as a whole); afterwards virtual time passes the next flush tick and an unrelated write is issued; every named bucket is "
                 "compared with the model right after the request, after the tick, after the next write and after its tick; "
                 "distinct_nontrivial = distinct (scenario, record kind, shared-layout, background writer, #buckets)"),
        "faults": ["none (fault-free configuration)", "virtual-time flush ticker", "seeded map iteration order of the request's buckets"],
        "assumptions": [A_MODEL, "float columns are never sent as 8/16-bit integers (out-of-range float->int conversion is implementation defined)"],
        "explanation": "oracle: a rejected request leaves every bucket it names equal to the model at all later times; an accepted retyped/reordered request stores, per column name, Go's numeric conversion of the sent value",
        "budget": {"quick": 35, "thorough": 600},
    },
    "C15": {
        "level": "exploration", "engine": "MODEL",
        "rule": ("one bucket per run: column count 1-6 (10%: 30-230; thorough also 900-1100), name lengths 1-8 / around 32 / 33-72 / 250-310 bytes, all element types, all timeframes, "
                 "both record types; writes including the first interval of a year; sleeps up to 400 virtual seconds; graceful restart; GetInfo after create and after restart, then a matching "
                 "write must be accepted and a renamed-column write rejected; distinct_nontrivial = distinct (kind, timeframe, #columns, name-length class, longest name/8)"),
        "faults": ["none (fault-free configuration)", "graceful restart", "virtual-time checkpoint"],
        "assumptions": [A_MODEL],
        "explanation": "oracle: reported schema (names, types, timeframe, record type) == created schema after create and after restart, or the creation was rejected; the schema is still enforced after restart",
        "budget": {"quick": 40, "thorough": 600},
    },
    "C16": {
        "level": "exploration", "engine": "MODEL",
        "rule": ("6-15 requests per run (create / write with auto-create / query / destroy) whose keys are drawn from a grammar of hostile components ('..', '.', empty, '../..', "
                 "'../../outside', 'x/..', '~', blanks, 300-byte names, ...) in every item position, with 3-, 4-item and permuted category lists; the simulated disk holds victim files "
                 "outside the root and REFUSES (EPERM) and records every mutating operation whose cleaned path is outside the root; "
                 "distinct_nontrivial = distinct (operation, component classes per position, #items)"),
        "faults": ["hostile keys", "simulated-disk guard (mutations outside the root are refused and recorded)"],
        "assumptions": [A_MODEL, "the guard sees every file operation of the instrumented packages; a content hash of everything outside the root cross-checks that it missed none"],
        "explanation": "oracle: the disk guard recorded no mutating operation outside the root, nothing outside the root changed, no request panicked",
        "budget": {"quick": 30, "thorough": 600},
    },
    "C17": {
        "level": "exploration", "engine": "MODEL+SCHED",
        "rule": ("key space 2 symbols x 2 timeframes x 2 attribute groups, two schemas; operations create / write into one of 4 years / destroy / re-create / query / list; "
                 "50% of runs sequential (catalog compared with disk and with a freshly loaded catalog after EVERY operation), 50% with 2-4 concurrent client tasks under the seeded "
                 "scheduler (preemption 2/10/30% at every lock, channel and file operation), compared at quiescence; "
                 "distinct_nontrivial = distinct (mode, #clients, schedule hash)"),
        "faults": ["seeded preemption at every yield point (concurrent half)", "lock contention on the catalog RWMutexes"],
        "assumptions": [A_MODEL, "tasks interleave at yield points only (file, lock, channel operations)"],
        "explanation": "oracle: ListSymbols(tbk) == bucket directories holding year files on disk == listing of catalog.NewDirectory on the same disk, and the same for year files; no panic, no hang",
        "budget": {"quick": 35, "thorough": 600},
    },
    "C06": {
        "level": "fault_enumeration", "engine": "CRASH",
        "rule": ("a valid WAL with 1-12 transaction groups (fixed+variable, multi-bucket, long paths / many columns in 35% of runs) is produced by the real server; the image keeps the WAL and the bucket "
                 "files but drops every primary data write, so replay has real work; damage operators on the WAL bytes: truncation at EVERY offset (exhaustive up to 700 bytes, 4000 in thorough; "
                 "record boundaries +-2 and 200 sampled offsets beyond), a bit flip at every byte of every record header / length / tgid / checksum plus sampled payload bytes, 1-64 garbage bytes "
                 "inserted at and inside every record, each TG duplicated, adjacent TGs swapped; the real startup replay runs on each damaged image; "
                 "distinct_nontrivial = distinct (operator, offset, length, detail, #TGs)"),
        "faults": ["WAL truncation at every offset", "bit flips", "inserted garbage", "boundary values in TGDATA length fields and bare TGDATA headers at record boundaries", "logs ending with a checkpoint (25% of the runs; cuts before its COMMITCOMPLETE record)", "duplicated record", "swapped records", "restart with replay"],
        "assumptions": [A_KILL, "the WAL is walked with a 40-line reader of the documented record format (docs/design/durable_writes_design.txt) only to locate record boundaries; without a background writer the k-th TGDATA record belongs to the k-th acknowledged write request"],
        "explanation": "oracle: startup returns (no panic, no hang within the step cap); every TG whose data and commit record lie wholly before the first damaged byte is visible after replay; no record id of the TG containing the damage is visible; later TGs are unconstrained",
        "budget": {"quick": 45, "thorough": 900},
    },
    "C28": {
        "level": "fault_enumeration", "engine": "CRASH",
        "rule": ("histories with adversarial schemas (symbols/attribute groups up to 230 bytes, 20-140 columns, names up to the header's 32 bytes, all element types, one >=64 KiB transaction in 25% of runs); "
                 "for every history: each TGDATA record is decoded with the real executor.ParseTGData and compared with the target bucket's schema/record type, and the image 'WAL fsynced, "
                 "no primary data write' (one crash window, at the end and at 40% of the TG boundaries) is replayed by the real startup code and compared with what the live write path stored; "
                 "distinct_nontrivial = distinct (#TGs, window, #buckets)"),
        "faults": ["process kill exactly between WAL fsync and the first primary write", "restart with replay"],
        "assumptions": [A_KILL],
        "explanation": "oracle: two real code paths compared (live primary write vs WAL replay), no model of the encoding: rows equal including timestamps; decoded data shapes == bucket schema",
        "budget": {"quick": 35, "thorough": 600},
    },
    "C34": {
        "level": "fault_enumeration", "engine": "CRASH",
        "rule": ("two lifetimes per history (the second starts on a crash image of the first, so leftover WAL files in the states the protocol really produces are present: header only, torn last record, "
                 "REPLAYINPROCESS, replayed-not-deleted); 5 (quick) / 16 (thorough) outer crash points k per lifetime; for each, the real recovery runs and ITS operation log is recorded; "
                 "then EVERY prefix j of recovery's own mutating operations is turned into an image (nested crash), the server is restarted on it, and in 25% of cases and always at the end restarted once more; "
                 "distinct_nontrivial = distinct nested image hashes"),
        "faults": ["process kill at sampled syscall prefixes", "process kill at EVERY syscall prefix of startup recovery itself", "second and third restart", "leftover WAL files from an earlier crashed instance"],
        "assumptions": [A_KILL],
        "explanation": ("oracle: after the nested restart C01's and C02's oracles hold (nothing acknowledged lost, nothing duplicated); in every recovery log the instance's own WAL is never removed, renamed or "
                        "written by replay code, an old WAL is unlinked only after a global sync that follows the last primary write; a further restart writes to no primary file"),
        "budget": {"quick": 45, "thorough": 900},
    },
    "C07": {
        "level": "exploration", "engine": "SCHED",
        "rule": ("2-4 writer tasks and 1-2 reader tasks (3-7 operations each, think times up to 600 virtual ms) against the real server with the background WAL writer running, "
                 "writers colliding on three hot intervals per bucket; the seeded scheduler preempts at every channel, lock and file operation with probability 2/10/30/60%; "
                 "which ready select case the WAL writer takes is a tape choice; channel depth 64/1024/4096; 20% of runs start the clients before the WAL writer task has run (cold start); "
                 "distinct_nontrivial = distinct schedule signatures (hash of the task-switch sequence, #preemptions, #operations)"),
        "faults": ["seeded preemption at every yield point", "virtual-time flush/check/checkpoint tickers", "slow disk: fsync / sync(2) take 5 ms-20 s of virtual time (per-run probability 0 / 4% / 15%)", "power loss at the instant of each acknowledgement (nothing un-synced survives)"],
        "assumptions": ["tasks interleave at yield points only (file, lock, channel operations); invoke/return are stamped with a global event counter",
                        A_POWER],
        "explanation": ("oracles: (1) per (bucket, interval) register and per variable bucket multiset: a query that starts after a write returned shows that write or one not entirely before it, never a value "
                        "issued after the query returned, never a duplicate; porcupine linearizability check per register in 30% of quick runs and all thorough runs; "
                        "(2) durability at ack: the power-loss image taken at the acknowledgement, with every un-synced write dropped, recovers the write (4 acks per run in quick, all in thorough)"),
        "budget": {"quick": 40, "thorough": 900},
    },
    "C18": {
        "level": "exploration", "engine": "SCHED",
        "rule": ("as C07 with 2-4 readers, 60% variable-length buckets, 4-9 operations per task; distinct_nontrivial = distinct schedule signatures"),
        "faults": ["seeded preemption at every yield point", "virtual-time tickers"],
        "assumptions": ["tasks interleave at yield points only (every lock, channel, file, timer and go statement); data races between plain memory accesses are decided by the second phase: the same engine in a race-detector build of the simulator in which the scheduler's hand-offs are hidden from the detector (runtime.RaceDisable around them) and the simulated Mutex/RWMutex/WaitGroup/Once/unbuffered-channel operations re-create exactly the happens-before edges the server's own synchronisation implies (buffered channels, atomics and go statements are the real thing); a report counts only when both access stacks belong to marketstore code",
                        "the race detector keeps a bounded access history per memory word: a race whose first access is very old may be missed (never invented)"],
        "explanation": "oracles: no task or request panics; no query of a bucket holding acknowledged data fails; every returned row is attributable to exactly one issued write with all columns from that write; reads obey the register/multiset rules of C07; race phase: no data race between two marketstore accesses (identity = unordered pair of the innermost marketstore functions)",
        "budget": {"quick": 40, "thorough": 900},
        "race": True, "race_budget": {"quick": 25, "thorough": 450},
    },
    "C35": {
        "level": "exploration", "engine": "SCHED",
        "rule": ("1-3 writer and 0-1 reader tasks (2-7 operations each; think times 0 / 300 ms / 2 s / 4 min so that flushes, checkpoints and WAL truncation interleave) with the background WAL writer (75%) "
                 "or without it (25%, one writer); the graceful Shutdown of cmd/start is requested either after a seed-chosen number of writes has returned or (60% of the background-writer runs) at the k-th scheduling point of the other tasks - in the middle of a flush, a checkpoint or a request that has queued its commands (any point relative to pending flushes and "
                 "checkpoints: preemption 2-60% inside Shutdown, the WAL writer's exit path and the trigger dispatcher's drain); every bucket is read after Shutdown returned and again after a real restart on the same disk; "
                 "distinct_nontrivial = distinct (mode, schedule hash, #preemptions, #operations)"),
        "faults": ["seeded preemption at every yield point", "shutdown at a seeded moment", "virtual-time tickers (flush 500 ms, checkpoint 5 min)", "restart with startup recovery"],
        "assumptions": ["tasks interleave at yield points only; requests still in flight when Shutdown returns are given 5 virtual seconds and then abandoned (the real process exits); the bucket of such a request is compared before/after unless the request still touched the disk after the final queries began; runs in which a request took the inline-flush path of RequestFlush after Shutdown was requested carry one known-cause tag"],
        "explanation": "oracle: Shutdown returns (bounded virtual time, no panic); every bucket's all-time result is identical before and after the restart; every write acknowledged before Shutdown returned is present; no variable-length record is duplicated",
        "budget": {"quick": 40, "thorough": 900},
    },
    "C05": {
        "level": "exploration", "engine": "SCHED",
        "rule": ("1-3 writer tasks (3-8 requests each; think times 0.4 s / 3 s / 3 min / 6 min; tail 1 s / 6 min / 16 min; WAL rotate interval 1-3; 30% of runs end with a graceful shutdown at a seeded moment) against "
                 "the real server with the background WAL writer, under seeded preemption; the four event sources of the writer loop (500 ms flush ticker, 5 ms fill-level ticker, 5 min checkpoint ticker, "
                 "requested flushes) interleave on the virtual clock and the select wrapper makes 'which ready case' a tape choice; then up to 40 (quick) / 400 (thorough) crash points at the boundaries of "
                 "the decoded WAL events are recovered as kill, power-loss (nothing un-synced kept) and WAL-only images; "
                 "distinct_nontrivial = distinct (schedule hash, #transaction groups, #checkpoints, #truncations, shutdown)"),
        "faults": ["seeded preemption at every yield point", "virtual-time flush / checkpoint / truncation", "graceful shutdown at a seeded moment", "process kill and power loss at WAL event boundaries", "restart with replay"],
        "assumptions": [A_KILL, A_POWER, "trace conformance decodes the bytes of the logged WAL writes (message id, TGID, destination, status) per docs/design/durable_writes_design.txt"],
        "explanation": ("oracles: (a) the recorded event trace is accepted by a state machine of the documented protocol (TGDATA(n) follows PREPARING(n); COMMITCOMPLETE(n) and the WAL fsync precede every primary write of n; "
                        "a checkpoint's COMMITCOMPLETE follows PREPARING and a global sync with no primary write in between; truncation only when nothing was logged since the last completed checkpoint); "
                        "(b) after recovery at every sampled crash point each write acknowledged before it is visible and a later commit is never overwritten by an older one; nothing un-issued is visible"),
        "budget": {"quick": 45, "thorough": 900},
    },
    "C32": {
        "level": "exploration", "engine": "SCHED",
        "rule": ("3-4 buckets (fixed and variable, all element types; names chosen so that none is a prefix of another) and 2-4 recording triggers with patterns from {*/1H/OHLCV, */1D/TICK, */*/OHLCV, "
                 "*/*/TICK, AAA/*/*, BBB/1H/*, CCC/4H/OHLCV, */4H/*, DDD/*/TICK, */*/*}, injected through Container.InjectTriggerMatchers; 1-3 writer tasks with the background WAL writer under seeded "
                 "preemption; the run ends with the real Shutdown (which drains the dispatcher); distinct_nontrivial = distinct (schedule hash, pattern list, #operations)"),
        "faults": ["seeded preemption at every yield point (writer loop, dispatcher task, one task per trigger firing)", "virtual-time flush ticker"],
        "assumptions": ["fixed-bucket requests carry at most one row per interval (a request's earlier row for the same interval is legitimately folded into the later one before flushing)",
                        "a pattern matches a bucket component-wise ('*' = any one component); anchoring of the regular expression is not part of the property"],
        "explanation": "oracle: multiset of (trigger, bucket, record id) delivered == records of acknowledged writes to buckets the trigger's pattern matches, each exactly once, with the written interval index, year file and column values; nothing delivered to non-matching triggers",
        "budget": {"quick": 35, "thorough": 600},
    },
    "C24": {
        "level": "exploration", "engine": "SCHED",
        "rule": ("the real aggtrigger.NewTrigger on */1Min/OHLCV with destinations from {5Min; 5Min,1H; 15Min,1H; 1H; 5Min,15Min,1H; 1H,1D}; 2-7 (thorough 8-13) requests of 1-12 base bars with gaps, in one of four modes: "
                 "in order, out of order, corrections of existing bars, mixed; virtual time passes between requests so that the chain dispatcher -> Fire -> query -> WriteCSM -> flush completes; "
                 "distinct_nontrivial = distinct (mode, destinations, #requests, #base bars)"),
        "faults": ["seeded preemption (0/2/10/30%) across the writer loop, dispatcher and trigger tasks", "virtual-time flush ticker"],
        "assumptions": [A_MODEL],
        "explanation": "oracle (at quiescence): each destination bucket holds exactly one bar per window that has base bars, with first open / max high / min low / last close / summed volume of the base bars the model says are currently stored",
        "budget": {"quick": 30, "thorough": 600},
    },
    "C25": {
        "level": "exploration", "engine": "REPL",
        "rule": ("master + 1-2 replica nodes (real di wiring each, own root and WAL) in one simulation; the master's WAL feeds the real replication.Sender and GRPCReplicationServer, each replica runs the real "
                 "Receiver/Retryer/ReplayerImpl over the simulated stream (0-20 ms latency); histories over fixed and variable buckets of 11 timeframes with all element types; in 50% of runs two writer tasks "
                 "without think time so that flushed transactions mix buckets and record types; compared at quiescence (5 virtual seconds after the last write); "
                 "distinct_nontrivial = distinct (kind, timeframe, mixed, #replicas, #rows)"),
        "faults": ["stream latency", "seeded preemption (0/5/20%)", "transaction grouping varied by concurrent writers"],
        "assumptions": ["co-hosted nodes share Go package variables (executor.ThisInstance, the have-WAL-writer flag): all nodes use the background writer and none is shut down while another runs",
                        "no loss, duplication or reordering inside a live stream (a gRPC stream over TCP does not do that)"],
        "explanation": "oracle: every all-time query returns the same rows on each replica as on the master (values equal; variable-length timestamps within tf/2^32); a replica whose receiver gives up is a violation",
        "budget": {"quick": 40, "thorough": 900},
    },
    "C26": {
        "level": "exploration", "engine": "REPL",
        "rule": ("master (real WAL flush path, Sender, GRPCReplicationServer) with 2-4 replicas running the real Receiver/Retryer over the simulated stream, retry interval 5-200 ms; 1-2 writer tasks, 60% of runs "
                 "in burst mode (requests back to back, preemption 10-60%, stream/sender channel depth 500/8/2); links are cut at 2-12 seeded moments (every 1-25 ms in burst mode) so that disconnects land while "
                 "transactions are being fanned out; each replica reconnects on a new address; distinct_nontrivial = distinct (schedule hash, #replicas, #connections)"),
        "faults": ["link break at seeded moments", "reconnect after back-off", "slow replicas (stream.Send takes 100 ms-5 s of virtual time on a first connection; cut before liveness is judged)", "seeded preemption at every channel/lock/file operation", "small channel depths"],
        "assumptions": ["tasks interleave at yield points (every channel, lock, file, timer operation and go statement); unsynchronised memory accesses in between are decided by a second phase that runs the same engine in the race-detector build (see C18) and counts a data race when at least one of the two accesses is inside the replication package (races elsewhere belong to C18); master and replicas share one process in the simulation but the replication package has no mutable package state, so such a race is between goroutines of one real process",
                        "stalled-but-connected replicas are not injected (outside the property's quantifier)"],
        "explanation": ("oracle: no task panics; every writer returns within 60 virtual seconds of the last disconnect; for each connection the received transactions are a gap-free, ordered run of the master's commit sequence, "
                        "start at most one transaction before the first one fanned out while it was registered, and a connection that stayed up received all of them"),
        "budget": {"quick": 40, "thorough": 900},
        "race": True, "race_budget": {"quick": 20, "thorough": 300},
    },
    "C33": {
        "level": "fault_enumeration", "engine": "STREAM",
        "rule": ("a CSV file for a generated bucket schema (1-40 rows, 15%: 100-200) lives on the simulated disk and is imported through the real loader.ReadMetadata / loader.CSVtoNumpyMulti loop of "
                 "cmd/connect (each chunk written through the server); cases per file: clean at chunk sizes {1, 2, rows-1, rows, rows+1, 1e6}; a read error at EVERY byte offset (files up to 600 bytes, 4000 in "
                 "thorough; else every row boundary and 150 sampled offsets); short reads of every size 1..64; one malformed row at every row position (one field too many, one too few, unparsable number, "
                 "unparsable timestamp, stray quote); each case runs on a fresh disk and server; distinct_nontrivial = distinct (case kind, position, chunk size, rows, timeframe)"),
        "faults": ["read error at every byte offset", "short reads of every size", "malformed row at every position", "chunk-size sweep"],
        "assumptions": ["the ten-line loop of session.load around the loader functions is re-stated in the harness (the RPC client of cmd/connect is bypassed)",
                        "expected rows are the rows the generator wrote into the file (an independent strict reading)"],
        "explanation": "oracle: the import returns an error, or every data row of the file is stored with its values (compared through an all-time query); a file with a malformed row must produce an error; no panic",
        "budget": {"quick": 35, "thorough": 600},
    },
    "C09": {
        "level": "exploration", "engine": "MODEL", "rule": MODEL_RULE,
        "faults": ["none (fault-free configuration)", "graceful restart", "compression on/off", "highly compressible payload bursts"],
        "assumptions": [A_MODEL],
        "explanation": "oracle: all-time query = time-ordered multiset of written records (by unique id), timestamps within the interval and less than tf/2^32 before the written time",
        "budget": {"quick": 40, "thorough": 600},
    },
})
