#!/usr/bin/env python3
"""Determinism self-test: for every registered property run the same seeds in separate worker
processes at GOMAXPROCS 1, 4 and 16 (and twice at 1) and compare everything the worker reports
except wall-clock time. Any difference is a nondeterminism bug of the simulator (exit 2).

  selftest_determinism.py [seeds-per-property] [property ...]
"""
import json, os, subprocess, sys, hashlib, tempfile, shutil
VERIF = os.path.dirname(os.path.abspath(__file__))
sys.path.insert(0, VERIF)
from propmeta import PROPS
env0 = dict(os.environ, GOFLAGS="-mod=mod", GOPROXY="off", GOSUMDB="off", GOTOOLCHAIN="local")
binp = subprocess.run([os.path.join(VERIF, "build.sh")], env=env0, stdout=subprocess.PIPE, text=True, check=True).stdout.strip().splitlines()[-1]
n = int(sys.argv[1]) if len(sys.argv) > 1 else 12
props = sys.argv[2:] or sorted(PROPS)
scratch = tempfile.mkdtemp(prefix="verif-det-", dir="/dev/shm")
bad = 0
total = 0
try:
    for p in props:
        jobs = []
        for variant, gmp in enumerate(["1", "1", "4", "16"]):
            out = os.path.join(scratch, f"{p}-{variant}.json")
            env = dict(env0, GOMAXPROCS=gmp)
            jobs.append((subprocess.Popen([binp, "run", "-prop", p, "-seed", "424242", "-n", str(n), "-tier", "quick",
                                           "-known", os.path.join(VERIF, "known_findings.jsonl"), "-out", out],
                                          env=env, cwd=scratch, stdout=subprocess.DEVNULL, stderr=subprocess.STDOUT), out, gmp))
        digests = []
        for pr, out, gmp in jobs:
            pr.wait()
            if pr.returncode != 0:
                print(f"{p}: worker failed (GOMAXPROCS={gmp})"); bad += 1; continue
            r = json.load(open(out))
            r.pop("wall_seconds", None)
            digests.append(hashlib.sha256(json.dumps(r, sort_keys=True).encode()).hexdigest()[:16])
        total += 1
        ok = len(set(digests)) == 1 and len(digests) == 4
        print(f"{p}: {'deterministic' if ok else 'DIFFERS'} over {n} seeds x 4 processes (GOMAXPROCS 1,1,4,16): {digests}")
        if not ok:
            bad += 1
            # show which top-level fields differ
            rs = [json.load(open(o)) for _, o, _ in jobs if os.path.exists(o)]
            for k in rs[0]:
                if k != "wall_seconds" and any(json.dumps(r.get(k), sort_keys=True) != json.dumps(rs[0].get(k), sort_keys=True) for r in rs[1:]):
                    print("    differs in:", k)
finally:
    shutil.rmtree(scratch, ignore_errors=True)
print(f"determinism self-test: {total - bad}/{total} properties identical")
sys.exit(2 if bad else 0)
