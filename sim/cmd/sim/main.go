package main

import (
	"fmt"
	"os"
	"time"

	"github.com/alpacahq/marketstore/v4/frontend"
	"github.com/alpacahq/marketstore/v4/utils/io"
	"github.com/alpacahq/marketstore/v4/zzverif/harness"
	"github.com/alpacahq/marketstore/v4/zzverif/simos"
	"github.com/alpacahq/marketstore/v4/zzverif/simrt"
)

func main() {
	if len(os.Args) > 1 && os.Args[1] == "smoke" {
		smoke()
		return
	}
	os.Exit(harness.Main(os.Args[1:]))
}

func smoke() {
	harness.InstallLogger()
	fs := simos.New()
	fs.Record = true
	simos.Cur = fs
	fs.MkdirAll("/data", 0o755)
	t0 := time.Now()
	s := simrt.Run(simrt.Config{Seed: 1, PreemptPct: 10, ShuffleMap: true}, func() {
		n, err := harness.StartNode("/data", harness.NodeOpts{BackgroundSync: true})
		if err != nil {
			fmt.Println("start:", err)
			return
		}
		var resp frontend.MultiServerResponse
		n.DS.Create(nil, &frontend.MultiCreateRequest{Requests: []frontend.CreateRequest{{
			Key: "TEST/1Min/OHLCV:Symbol/Timeframe/AttributeGroup", ColumnTypes: []string{"f4", "i8"}, ColumnNames: []string{"Open", "Id"}}}}, &resp)
		fmt.Println("create:", resp)
		cs := io.NewColumnSeries()
		base := time.Date(2021, 3, 1, 10, 0, 0, 0, time.UTC).Unix()
		cs.AddColumn("Epoch", []int64{base, base + 60, base + 120})
		cs.AddColumn("Open", []float32{1, 2, 3})
		cs.AddColumn("Id", []int64{11, 12, 13})
		nds, _ := io.NewNumpyDataset(cs)
		nmds, _ := io.NewNumpyMultiDataset(nds, *io.NewTimeBucketKey("TEST/1Min/OHLCV"))
		var wr frontend.MultiServerResponse
		n.DS.Write(nil, &frontend.MultiWriteRequest{Requests: []frontend.WriteRequest{{Data: nmds}}}, &wr)
		fmt.Println("write:", wr, "virtual:", simrt.Now())
		q := func(n *harness.Node) {
			var qr frontend.MultiQueryResponse
			err = n.DS.Query(nil, &frontend.MultiQueryRequest{Requests: []frontend.QueryRequest{{Destination: "TEST/1Min/OHLCV"}}}, &qr)
			if err != nil {
				fmt.Println("query err:", err)
				return
			}
			csm, _ := qr.ToColumnSeriesMap()
			for k, v := range *csm {
				fmt.Println(k.String(), v.GetEpoch(), v.GetColumn("Open"), v.GetColumn("Id"))
			}
		}
		q(n)
		simrt.Sleep(11 * time.Minute)
		fmt.Println("after sleep virtual:", simrt.Now())
		fmt.Println("shutdown:", n.Shutdown())
		n2, err := harness.StartNode("/data", harness.NodeOpts{BackgroundSync: true})
		fmt.Println("restart:", err)
		q(n2)
	})
	fmt.Println("err:", s.Err, "steps:", s.Steps, "switches:", s.Switch, "panics:", len(s.Panics), "wall:", time.Since(t0), "ops:", len(fs.Log))
	for _, p := range s.Panics {
		fmt.Println(p.Name, p.Panic, p.Stack)
	}
	for i, op := range fs.Log {
		if i < 60 {
			fmt.Println(op)
		}
	}
}
