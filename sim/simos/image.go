package simos

import (
	"io/fs"
	"math"
)

// Apply re-applies a logged mutating operation to f. Inode numbers of the
// recording are preserved so that writes through already-open (renamed or
// unlinked) files land on the right inode.
func (f *FS) Apply(op *Op) {
	switch op.Kind {
	case OpCreate:
		par, base, err := f.lookupParent(op.Path)
		if err != nil {
			return
		}
		ino := &inode{ino: op.Ino, pages: map[int64][]byte{}, mode: 0o600}
		f.byIno[op.Ino] = ino
		par.children[base] = ino
		if op.Ino >= f.nextIno {
			f.nextIno = op.Ino + 1
		}
	case OpMkdir:
		par, base, err := f.lookupParent(op.Path)
		if err != nil {
			return
		}
		ino := &inode{ino: op.Ino, dir: true, children: map[string]*inode{}, mode: fs.ModeDir | 0o770}
		f.byIno[op.Ino] = ino
		par.children[base] = ino
		if op.Ino >= f.nextIno {
			f.nextIno = op.Ino + 1
		}
	case OpWrite:
		if ino := f.byIno[op.Ino]; ino != nil && !ino.dir {
			ino.writeAt(op.Data, op.Off)
		}
	case OpTruncate:
		if ino := f.byIno[op.Ino]; ino != nil && !ino.dir {
			ino.truncate(op.Size)
		}
	case OpRename:
		ino, err := f.lookup(op.Path)
		if err != nil {
			return
		}
		npar, nbase, err := f.lookupParent(op.Path2)
		if err != nil {
			return
		}
		opar, obase, _ := f.lookupParent(op.Path)
		delete(opar.children, obase)
		npar.children[nbase] = ino
	case OpRemove, OpRemoveAll:
		par, base, err := f.lookupParent(op.Path)
		if err != nil {
			return
		}
		delete(par.children, base)
	}
}

// ApplyTorn applies a write keeping only the 512-byte sectors selected by
// keep(sectorIndexWithinOp).
func (f *FS) ApplyTorn(op *Op, keep func(sector int) bool) {
	if op.Kind != OpWrite {
		f.Apply(op)
		return
	}
	ino := f.byIno[op.Ino]
	if ino == nil || ino.dir {
		return
	}
	const sector = 512
	// sectors are aligned to the file offset grid
	start := op.Off
	end := op.Off + int64(len(op.Data))
	idx := 0
	for s := start - start%sector; s < end; s += sector {
		lo, hi := s, s+sector
		if lo < start {
			lo = start
		}
		if hi > end {
			hi = end
		}
		if keep(idx) {
			ino.writeAt(op.Data[lo-start:hi-start], lo)
		} else if hi > ino.size {
			// the file grew through this write: size metadata may be updated even
			// though the data never hit the disk (zeros visible)
			ino.size = int64(math.Max(float64(ino.size), float64(hi)))
		}
		idx++
	}
}

// ApplySectors applies the bytes of a write that fall into the 512-byte
// sectors (absolute sector numbers of the file) selected by keep. With grow
// set, a sector that is not kept still extends the file size (size metadata
// updated although the data never reached the disk: zeros visible).
func (f *FS) ApplySectors(op *Op, keep func(absSector int64) bool, grow bool) {
	if op.Kind != OpWrite {
		return
	}
	ino := f.byIno[op.Ino]
	if ino == nil || ino.dir {
		return
	}
	const sector = 512
	start := op.Off
	end := op.Off + int64(len(op.Data))
	for s := start - start%sector; s < end; s += sector {
		lo, hi := s, s+sector
		if lo < start {
			lo = start
		}
		if hi > end {
			hi = end
		}
		if keep(s / sector) {
			ino.writeAt(op.Data[lo-start:hi-start], lo)
		} else if grow && hi > ino.size {
			ino.size = hi
		}
	}
}

// Sectors returns the absolute 512-byte sector numbers a write touches.
func (o *Op) Sectors() (first, last int64) {
	return o.Off / 512, (o.Off + int64(len(o.Data)) - 1) / 512
}

// SyncedBy returns, for every log index i, the index of the first durability
// barrier after i that covers it (fsync of the same inode or a global sync), or
// len(log) if none. Namespace operations are durable at once (assumption
// A-meta) and get their own index.
func SyncedBy(log []*Op) []int {
	n := len(log)
	out := make([]int, n)
	lastFS := n
	lastIno := map[int]int{}
	for i := n - 1; i >= 0; i-- {
		op := log[i]
		switch op.Kind {
		case OpSyncFS:
			lastFS = i
			out[i] = i
		case OpSync:
			lastIno[op.Ino] = i
			out[i] = i
		case OpWrite, OpTruncate:
			b := lastFS
			if j, ok := lastIno[op.Ino]; ok && j < b {
				b = j
			}
			out[i] = b
		default:
			out[i] = i
		}
	}
	return out
}

// DataOp tells whether the op is subject to loss before a barrier.
func (o *Op) DataOp() bool { return o.Kind == OpWrite || o.Kind == OpTruncate }
