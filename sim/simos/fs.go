// Package simos is the simulated disk: an in-memory file system behind the
// `os` names marketstore uses, with a total-order log of every mutating
// operation from which post-crash images are built (see image.go).
package simos

import (
	"errors"
	"fmt"
	goos "os"
	"io"
	"io/fs"
	"path"
	"path/filepath"
	"runtime"
	"sort"
	"strings"
	"syscall"
	"time"

	"github.com/alpacahq/marketstore/v4/zzverif/simrt"
)

const pageSize = 4096

type inode struct {
	ino      int
	dir      bool
	children map[string]*inode
	pages    map[int64][]byte // immutable pages (copy on write)
	size     int64
	mode     fs.FileMode
	mtime    int64
}

// OpKind enumerates mutating operations.
type OpKind uint8

const (
	OpCreate OpKind = iota + 1 // create regular file (path, ino)
	OpMkdir
	OpWrite    // ino, off, data
	OpTruncate // ino, size
	OpRename   // path -> path2
	OpRemove   // path
	OpRemoveAll
	OpSync   // fsync(ino) barrier
	OpSyncFS // sync() barrier
	OpMarker // harness marker (Note)
	OpRefused
)

func (k OpKind) String() string {
	return [...]string{"?", "create", "mkdir", "write", "truncate", "rename", "remove", "removeall", "fsync", "syncfs", "marker", "refused"}[k]
}

// Op is one record of the operation log.
type Op struct {
	Seq   int
	Kind  OpKind
	Task  int
	Ino   int
	Path  string
	Path2 string
	Off   int64
	Data  []byte
	Size  int64
	Site  string // innermost marketstore function
	Note  string
	Trunc bool // OpCreate on existing file with O_TRUNC
	Time  int64 // virtual clock when logged
	Chain string // up to three innermost marketstore functions, "a<b<c"
}

func (o *Op) Mutating() bool {
	switch o.Kind {
	case OpCreate, OpMkdir, OpWrite, OpTruncate, OpRename, OpRemove, OpRemoveAll:
		return true
	}
	return false
}

func (o *Op) String() string {
	switch o.Kind {
	case OpWrite:
		return fmt.Sprintf("#%d write ino=%d %s off=%d len=%d @%s", o.Seq, o.Ino, filepath.Base(o.Path), o.Off, len(o.Data), o.Site)
	case OpTruncate:
		return fmt.Sprintf("#%d truncate ino=%d %s size=%d @%s", o.Seq, o.Ino, filepath.Base(o.Path), o.Size, o.Site)
	case OpMarker:
		return fmt.Sprintf("#%d marker %s", o.Seq, o.Note)
	case OpRename:
		return fmt.Sprintf("#%d rename %s -> %s @%s", o.Seq, o.Path, o.Path2, o.Site)
	default:
		return fmt.Sprintf("#%d %s %s ino=%d @%s", o.Seq, o.Kind, o.Path, o.Ino, o.Site)
	}
}

// FS is one simulated disk.
type FS struct {
	root    *inode
	nextIno int
	byIno   map[int]*inode
	Log     []*Op
	Record  bool
	// Guard: mutating operations whose cleaned path is outside one of these
	// roots are refused with EPERM and recorded (C16's oracle).
	GuardRoots []string
	Refused    []*Op
	ReadOps    uint64
	WriteOps   uint64
	// ReadHook, when set, is consulted on every Read/ReadAt of a regular file
	// (STREAM engine: reader faults). It may shorten n or return an error.
	ReadHook func(path string, off int64, n int) (int, error)
}

// Cur is the disk seen by instrumented code.
var Cur = New()

func New() *FS {
	f := &FS{nextIno: 2, byIno: map[int]*inode{}}
	f.root = &inode{ino: 1, dir: true, children: map[string]*inode{}, mode: fs.ModeDir | 0o755}
	f.byIno[1] = f.root
	return f
}

// Clone returns an independent copy (pages are shared copy-on-write). The log
// is not copied.
func (f *FS) Clone() *FS {
	n := &FS{nextIno: f.nextIno, byIno: map[int]*inode{}, GuardRoots: f.GuardRoots}
	var cp func(*inode) *inode
	cp = func(i *inode) *inode {
		c := &inode{ino: i.ino, dir: i.dir, size: i.size, mode: i.mode, mtime: i.mtime}
		n.byIno[c.ino] = c
		if i.dir {
			c.children = make(map[string]*inode, len(i.children))
			for k, v := range i.children {
				c.children[k] = cp(v)
			}
		} else {
			c.pages = make(map[int64][]byte, len(i.pages))
			for k, v := range i.pages {
				c.pages[k] = v
			}
		}
		return c
	}
	n.root = cp(f.root)
	return n
}

func clean(p string) string {
	if !strings.HasPrefix(p, "/") {
		p = "/" + p
	}
	return path.Clean(p)
}

func split(p string) []string {
	p = clean(p)
	if p == "/" {
		return nil
	}
	return strings.Split(p[1:], "/")
}

func (f *FS) lookup(p string) (*inode, error) {
	cur := f.root
	for _, c := range split(p) {
		if !cur.dir {
			return nil, syscall.ENOTDIR
		}
		nx, ok := cur.children[c]
		if !ok {
			return nil, syscall.ENOENT
		}
		cur = nx
	}
	return cur, nil
}

func (f *FS) lookupParent(p string) (*inode, string, error) {
	parts := split(p)
	if len(parts) == 0 {
		return nil, "", syscall.EEXIST
	}
	cur := f.root
	for _, c := range parts[:len(parts)-1] {
		if !cur.dir {
			return nil, "", syscall.ENOTDIR
		}
		nx, ok := cur.children[c]
		if !ok {
			return nil, "", syscall.ENOENT
		}
		cur = nx
	}
	if !cur.dir {
		return nil, "", syscall.ENOTDIR
	}
	return cur, parts[len(parts)-1], nil
}

func perr(op, p string, err error) error {
	if err == nil {
		return nil
	}
	return &fs.PathError{Op: op, Path: p, Err: err}
}

func (f *FS) guardOK(p string) bool {
	if len(f.GuardRoots) == 0 {
		return true
	}
	c := clean(p)
	for _, r := range f.GuardRoots {
		if c == r || strings.HasPrefix(c, r+"/") {
			return true
		}
	}
	return false
}

func site() string {
	a, _ := siteChain()
	return a
}

func siteChain() (string, string) {
	var pcs [32]uintptr
	n := runtime.Callers(3, pcs[:])
	frames := runtime.CallersFrames(pcs[:n])
	var fns []string
	for {
		fr, more := frames.Next()
		fn := fr.Function
		if strings.Contains(fn, "alpacahq/marketstore") && !strings.Contains(fn, "/zzverif/") {
			if i := strings.LastIndex(fn, "/"); i >= 0 {
				fn = fn[i+1:]
			}
			fns = append(fns, fn)
			if len(fns) == 3 {
				break
			}
		}
		if !more {
			break
		}
	}
	if len(fns) == 0 {
		return "harness", "harness"
	}
	return fns[0], strings.Join(fns, "<")
}

// TraceOps (VERIF_LOG_OPS=1): print every mutating operation with its task (debugging aid).
var TraceOps = goos.Getenv("VERIF_LOG_OPS") != ""

func (f *FS) log(op *Op) {
	if TraceOps && op.Mutating() && simrt.S != nil {
		st, _ := siteChain()
		fmt.Printf("  OP t=%d task=%s kind=%d %s off=%d len=%d at %s\n", simrt.NowNanos(), simrt.S.TaskName(simrt.CurTaskID()), op.Kind, op.Path, op.Off, len(op.Data), st)
	}
	if !f.Record {
		return
	}
	op.Seq = len(f.Log)
	op.Task = simrt.CurTaskID()
	op.Time = simrt.NowNanos()
	if op.Site == "" {
		op.Site, op.Chain = siteChain()
	}
	f.Log = append(f.Log, op)
}

// Marker appends a harness marker to the log.
func (f *FS) Marker(note string) int {
	op := &Op{Kind: OpMarker, Note: note, Site: "harness"}
	f.log(op)
	return op.Seq
}

func (f *FS) refuse(kind OpKind, p string) error {
	op := &Op{Kind: OpRefused, Path: clean(p), Note: kind.String(), Site: site()}
	f.Refused = append(f.Refused, op)
	f.log(op)
	return syscall.EPERM
}

func (i *inode) readAt(b []byte, off int64) int {
	if off >= i.size {
		return 0
	}
	n := len(b)
	if int64(n) > i.size-off {
		n = int(i.size - off)
	}
	done := 0
	for done < n {
		pg := (off + int64(done)) / pageSize
		po := int((off + int64(done)) % pageSize)
		c := pageSize - po
		if c > n-done {
			c = n - done
		}
		if p, ok := i.pages[pg]; ok {
			copy(b[done:done+c], p[po:po+c])
		} else {
			for k := done; k < done+c; k++ {
				b[k] = 0
			}
		}
		done += c
	}
	return n
}

func (i *inode) writeAt(b []byte, off int64) {
	done := 0
	n := len(b)
	for done < n {
		pg := (off + int64(done)) / pageSize
		po := int((off + int64(done)) % pageSize)
		c := pageSize - po
		if c > n-done {
			c = n - done
		}
		np := make([]byte, pageSize)
		if p, ok := i.pages[pg]; ok {
			copy(np, p)
		}
		copy(np[po:po+c], b[done:done+c])
		i.pages[pg] = np
		done += c
	}
	if off+int64(n) > i.size {
		i.size = off + int64(n)
	}
}

func (i *inode) truncate(size int64) {
	if size < i.size {
		// drop whole pages beyond, zero the tail of the boundary page
		for pg := range i.pages {
			if pg*pageSize >= size {
				delete(i.pages, pg)
			}
		}
		if po := size % pageSize; po != 0 {
			pg := size / pageSize
			if p, ok := i.pages[pg]; ok {
				np := make([]byte, pageSize)
				copy(np, p[:po])
				i.pages[pg] = np
			}
		}
	}
	i.size = size
}

// ---- os-level API ----

// File mirrors *os.File.
type File struct {
	fs     *FS
	ino    *inode
	name   string
	pos    int64
	flag   int
	closed bool
	dirpos int
}

func OpenFile(name string, flag int, perm fs.FileMode) (*File, error) {
	simrt.Yield("fs-open")
	return Cur.OpenFile(name, flag, perm)
}

func (f *FS) OpenFile(name string, flag int, perm fs.FileMode) (*File, error) {
	ino, err := f.lookup(name)
	if err != nil {
		if err != syscall.ENOENT || flag&syscall.O_CREAT == 0 {
			return nil, perr("open", name, err)
		}
		if !f.guardOK(name) {
			return nil, perr("open", name, f.refuse(OpCreate, name))
		}
		par, base, err := f.lookupParent(name)
		if err != nil {
			return nil, perr("open", name, err)
		}
		ino = &inode{ino: f.nextIno, pages: map[int64][]byte{}, mode: perm & 0o777, mtime: simrt.NowNanos()}
		f.nextIno++
		f.byIno[ino.ino] = ino
		par.children[base] = ino
		f.WriteOps++
		f.log(&Op{Kind: OpCreate, Path: clean(name), Ino: ino.ino})
	} else {
		if flag&syscall.O_CREAT != 0 && flag&syscall.O_EXCL != 0 {
			return nil, perr("open", name, syscall.EEXIST)
		}
		if ino.dir && flag&(syscall.O_WRONLY|syscall.O_RDWR) != 0 {
			return nil, perr("open", name, syscall.EISDIR)
		}
		if flag&syscall.O_TRUNC != 0 && !ino.dir && ino.size > 0 {
			if !f.guardOK(name) {
				return nil, perr("open", name, f.refuse(OpTruncate, name))
			}
			ino.truncate(0)
			f.WriteOps++
			f.log(&Op{Kind: OpTruncate, Path: clean(name), Ino: ino.ino, Size: 0})
		}
	}
	return &File{fs: f, ino: ino, name: name, flag: flag}, nil
}

func Open(name string) (*File, error) { return OpenFile(name, syscall.O_RDONLY, 0) }
func Create(name string) (*File, error) {
	return OpenFile(name, syscall.O_RDWR|syscall.O_CREAT|syscall.O_TRUNC, 0o666)
}

func (fl *File) Name() string { return fl.name }

func (fl *File) check(op string) error {
	if fl == nil {
		return fs.ErrInvalid
	}
	if fl.closed {
		return perr(op, fl.name, fs.ErrClosed)
	}
	return nil
}

func (fl *File) Read(b []byte) (int, error) {
	if err := fl.check("read"); err != nil {
		return 0, err
	}
	simrt.Yield("fs-read")
	if fl.ino.dir {
		return 0, perr("read", fl.name, syscall.EISDIR)
	}
	fl.fs.ReadOps++
	if len(b) == 0 {
		return 0, nil
	}
	want := len(b)
	if h := fl.fs.ReadHook; h != nil {
		n, err := h(fl.name, fl.pos, want)
		if err != nil {
			return 0, perr("read", fl.name, err)
		}
		if n < want {
			want = n
		}
	}
	n := fl.ino.readAt(b[:want], fl.pos)
	fl.pos += int64(n)
	if n == 0 {
		return 0, io.EOF
	}
	return n, nil
}

func (fl *File) ReadAt(b []byte, off int64) (int, error) {
	if err := fl.check("read"); err != nil {
		return 0, err
	}
	simrt.Yield("fs-readat")
	if off < 0 {
		return 0, perr("readat", fl.name, errors.New("negative offset"))
	}
	fl.fs.ReadOps++
	n := fl.ino.readAt(b, off)
	if n < len(b) {
		return n, io.EOF
	}
	return n, nil
}

func (fl *File) writable() bool {
	return fl.flag&(syscall.O_WRONLY|syscall.O_RDWR) != 0
}

func (fl *File) Write(b []byte) (int, error) {
	if err := fl.check("write"); err != nil {
		return 0, err
	}
	simrt.Yield("fs-write")
	if !fl.writable() {
		return 0, perr("write", fl.name, syscall.EBADF)
	}
	if fl.flag&syscall.O_APPEND != 0 {
		fl.pos = fl.ino.size
	}
	fl.doWrite(b, fl.pos)
	fl.pos += int64(len(b))
	return len(b), nil
}

func (fl *File) doWrite(b []byte, off int64) {
	if len(b) == 0 {
		return
	}
	fl.ino.writeAt(b, off)
	fl.ino.mtime = simrt.NowNanos()
	fl.fs.WriteOps++
	if TraceOps && simrt.S != nil {
		st, _ := siteChain()
		fmt.Printf("  OP t=%d task=%s write %s off=%d len=%d at %s\n", simrt.NowNanos(), simrt.S.TaskName(simrt.CurTaskID()), fl.name, off, len(b), st)
	}
	if fl.fs.Record {
		d := make([]byte, len(b))
		copy(d, b)
		fl.fs.log(&Op{Kind: OpWrite, Path: clean(fl.name), Ino: fl.ino.ino, Off: off, Data: d})
	}
}

func (fl *File) WriteString(s string) (int, error) { return fl.Write([]byte(s)) }

func (fl *File) WriteAt(b []byte, off int64) (int, error) {
	if err := fl.check("write"); err != nil {
		return 0, err
	}
	simrt.Yield("fs-writeat")
	if !fl.writable() {
		return 0, perr("write", fl.name, syscall.EBADF)
	}
	if off < 0 {
		return 0, perr("writeat", fl.name, errors.New("negative offset"))
	}
	fl.doWrite(b, off)
	return len(b), nil
}

func (fl *File) Seek(offset int64, whence int) (int64, error) {
	if err := fl.check("seek"); err != nil {
		return 0, err
	}
	var np int64
	switch whence {
	case io.SeekStart:
		np = offset
	case io.SeekCurrent:
		np = fl.pos + offset
	case io.SeekEnd:
		np = fl.ino.size + offset
	default:
		return 0, perr("seek", fl.name, syscall.EINVAL)
	}
	if np < 0 {
		return 0, perr("seek", fl.name, syscall.EINVAL)
	}
	fl.pos = np
	return np, nil
}

func (fl *File) Sync() error {
	if err := fl.check("sync"); err != nil {
		return err
	}
	simrt.Yield("fs-fsync")
	slowSync("fsync")
	fl.fs.log(&Op{Kind: OpSync, Path: clean(fl.name), Ino: fl.ino.ino})
	return nil
}

// SlowSync, when set by the harness, makes an fsync / sync(2) take virtual time
// (a slow or stalled disk): the calling task is parked for the returned
// duration and the barrier is recorded only when the call completes.
var SlowSync func(kind string) time.Duration

func slowSync(kind string) {
	if SlowSync != nil && simrt.S != nil {
		if d := SlowSync(kind); d > 0 {
			simrt.Sleep(d)
		}
	}
}

func (fl *File) Truncate(size int64) error {
	if err := fl.check("truncate"); err != nil {
		return err
	}
	simrt.Yield("fs-truncate")
	if !fl.writable() {
		return perr("truncate", fl.name, syscall.EINVAL)
	}
	fl.ino.truncate(size)
	fl.fs.WriteOps++
	fl.fs.log(&Op{Kind: OpTruncate, Path: clean(fl.name), Ino: fl.ino.ino, Size: size})
	return nil
}

func (fl *File) Close() error {
	if fl == nil {
		return fs.ErrInvalid
	}
	if fl.closed {
		return perr("close", fl.name, fs.ErrClosed)
	}
	fl.closed = true
	return nil
}

func (fl *File) Stat() (fs.FileInfo, error) {
	if err := fl.check("stat"); err != nil {
		return nil, err
	}
	return &fileInfo{name: path.Base(clean(fl.name)), ino: fl.ino}, nil
}

func (fl *File) Fd() uintptr { return uintptr(fl.ino.ino) }

func (fl *File) ReadDir(n int) ([]fs.DirEntry, error) {
	if !fl.ino.dir {
		return nil, perr("readdir", fl.name, syscall.ENOTDIR)
	}
	all := dirEntries(fl.ino)
	if fl.dirpos >= len(all) {
		if n > 0 {
			return nil, io.EOF
		}
		return nil, nil
	}
	rest := all[fl.dirpos:]
	if n > 0 && n < len(rest) {
		rest = rest[:n]
	}
	fl.dirpos += len(rest)
	return rest, nil
}

func (fl *File) Readdirnames(n int) ([]string, error) {
	es, err := fl.ReadDir(n)
	var r []string
	for _, e := range es {
		r = append(r, e.Name())
	}
	return r, err
}

type fileInfo struct {
	name string
	ino  *inode
}

func (fi *fileInfo) Name() string { return fi.name }
func (fi *fileInfo) Size() int64 {
	if fi.ino.dir {
		return 4096
	}
	return fi.ino.size
}
func (fi *fileInfo) Mode() fs.FileMode          { return fi.ino.mode }
func (fi *fileInfo) ModTime() time.Time         { return time.Unix(0, fi.ino.mtime) }
func (fi *fileInfo) IsDir() bool                { return fi.ino.dir }
func (fi *fileInfo) Sys() interface{}           { return nil }
func (fi *fileInfo) Type() fs.FileMode          { return fi.ino.mode.Type() }
func (fi *fileInfo) Info() (fs.FileInfo, error) { return fi, nil }

func dirEntries(d *inode) []fs.DirEntry {
	names := make([]string, 0, len(d.children))
	for k := range d.children {
		names = append(names, k)
	}
	sort.Strings(names)
	out := make([]fs.DirEntry, len(names))
	for i, n := range names {
		out[i] = &fileInfo{name: n, ino: d.children[n]}
	}
	return out
}

func Stat(name string) (fs.FileInfo, error) {
	simrt.Yield("fs-stat")
	return Cur.Stat(name)
}

func (f *FS) Stat(name string) (fs.FileInfo, error) {
	ino, err := f.lookup(name)
	if err != nil {
		return nil, perr("stat", name, err)
	}
	return &fileInfo{name: path.Base(clean(name)), ino: ino}, nil
}

func Lstat(name string) (fs.FileInfo, error) { return Stat(name) }

func Mkdir(name string, perm fs.FileMode) error {
	simrt.Yield("fs-mkdir")
	return Cur.Mkdir(name, perm)
}

func (f *FS) Mkdir(name string, perm fs.FileMode) error {
	if _, err := f.lookup(name); err == nil {
		return perr("mkdir", name, syscall.EEXIST)
	}
	par, base, err := f.lookupParent(name)
	if err != nil {
		return perr("mkdir", name, err)
	}
	if !f.guardOK(name) {
		return perr("mkdir", name, f.refuse(OpMkdir, name))
	}
	ino := &inode{ino: f.nextIno, dir: true, children: map[string]*inode{}, mode: fs.ModeDir | (perm & 0o777), mtime: simrt.NowNanos()}
	f.nextIno++
	f.byIno[ino.ino] = ino
	par.children[base] = ino
	f.WriteOps++
	f.log(&Op{Kind: OpMkdir, Path: clean(name), Ino: ino.ino})
	return nil
}

func MkdirAll(name string, perm fs.FileMode) error {
	simrt.Yield("fs-mkdirall")
	return Cur.MkdirAll(name, perm)
}

func (f *FS) MkdirAll(name string, perm fs.FileMode) error {
	parts := split(name)
	cur := ""
	for _, p := range parts {
		cur += "/" + p
		if ino, err := f.lookup(cur); err == nil {
			if !ino.dir {
				return perr("mkdir", cur, syscall.ENOTDIR)
			}
			continue
		}
		if err := f.Mkdir(cur, perm); err != nil {
			return err
		}
	}
	return nil
}

func Remove(name string) error {
	simrt.Yield("fs-remove")
	return Cur.Remove(name)
}

func (f *FS) Remove(name string) error {
	ino, err := f.lookup(name)
	if err != nil {
		return perr("remove", name, err)
	}
	if ino.dir && len(ino.children) > 0 {
		return perr("remove", name, syscall.ENOTEMPTY)
	}
	if !f.guardOK(name) {
		return perr("remove", name, f.refuse(OpRemove, name))
	}
	par, base, err := f.lookupParent(name)
	if err != nil {
		return perr("remove", name, err)
	}
	delete(par.children, base)
	f.WriteOps++
	f.log(&Op{Kind: OpRemove, Path: clean(name), Ino: ino.ino})
	return nil
}

func RemoveAll(name string) error {
	simrt.Yield("fs-removeall")
	return Cur.RemoveAll(name)
}

func (f *FS) RemoveAll(name string) error {
	ino, err := f.lookup(name)
	if err != nil {
		if err == syscall.ENOENT {
			return nil
		}
		return perr("removeall", name, err)
	}
	if !f.guardOK(name) {
		return perr("removeall", name, f.refuse(OpRemoveAll, name))
	}
	par, base, err := f.lookupParent(name)
	if err != nil {
		// removing "/" itself
		return perr("removeall", name, syscall.EBUSY)
	}
	delete(par.children, base)
	f.WriteOps++
	f.log(&Op{Kind: OpRemoveAll, Path: clean(name), Ino: ino.ino})
	return nil
}

func Rename(oldp, newp string) error {
	simrt.Yield("fs-rename")
	return Cur.Rename(oldp, newp)
}

func (f *FS) Rename(oldp, newp string) error {
	ino, err := f.lookup(oldp)
	if err != nil {
		return &osLinkError{"rename", oldp, newp, err}
	}
	if !f.guardOK(oldp) {
		return &osLinkError{"rename", oldp, newp, f.refuse(OpRename, oldp)}
	}
	if !f.guardOK(newp) {
		return &osLinkError{"rename", oldp, newp, f.refuse(OpRename, newp)}
	}
	npar, nbase, err := f.lookupParent(newp)
	if err != nil {
		return &osLinkError{"rename", oldp, newp, err}
	}
	if ex, ok := npar.children[nbase]; ok && ex.dir && len(ex.children) > 0 {
		return &osLinkError{"rename", oldp, newp, syscall.ENOTEMPTY}
	}
	opar, obase, _ := f.lookupParent(oldp)
	delete(opar.children, obase)
	npar.children[nbase] = ino
	f.WriteOps++
	f.log(&Op{Kind: OpRename, Path: clean(oldp), Path2: clean(newp), Ino: ino.ino})
	return nil
}

type osLinkError struct {
	Op, Old, New string
	Err          error
}

func (e *osLinkError) Error() string { return e.Op + " " + e.Old + " " + e.New + ": " + e.Err.Error() }
func (e *osLinkError) Unwrap() error { return e.Err }

func ReadFile(name string) ([]byte, error) {
	simrt.Yield("fs-readfile")
	return Cur.ReadFile(name)
}

func (f *FS) ReadFile(name string) ([]byte, error) {
	ino, err := f.lookup(name)
	if err != nil {
		return nil, perr("open", name, err)
	}
	if ino.dir {
		return nil, perr("read", name, syscall.EISDIR)
	}
	f.ReadOps++
	b := make([]byte, ino.size)
	ino.readAt(b, 0)
	return b, nil
}

func WriteFile(name string, data []byte, perm fs.FileMode) error {
	fl, err := OpenFile(name, syscall.O_WRONLY|syscall.O_CREAT|syscall.O_TRUNC, perm)
	if err != nil {
		return err
	}
	_, err = fl.Write(data)
	fl.Close()
	return err
}

func ReadDir(name string) ([]fs.DirEntry, error) {
	simrt.Yield("fs-readdir")
	return Cur.ReadDir(name)
}

func (f *FS) ReadDir(name string) ([]fs.DirEntry, error) {
	ino, err := f.lookup(name)
	if err != nil {
		return nil, perr("open", name, err)
	}
	if !ino.dir {
		return nil, perr("readdir", name, syscall.ENOTDIR)
	}
	return dirEntries(ino), nil
}

func Truncate(name string, size int64) error {
	simrt.Yield("fs-truncate")
	ino, err := Cur.lookup(name)
	if err != nil {
		return perr("truncate", name, err)
	}
	if !Cur.guardOK(name) {
		return perr("truncate", name, Cur.refuse(OpTruncate, name))
	}
	ino.truncate(size)
	Cur.WriteOps++
	Cur.log(&Op{Kind: OpTruncate, Path: clean(name), Ino: ino.ino, Size: size})
	return nil
}

// SyncFS is syscall.Sync(): a global durability barrier.
func SyncFS() {
	simrt.Yield("fs-syncfs")
	slowSync("syncfs")
	Cur.log(&Op{Kind: OpSyncFS})
}

// ---- helpers for the harness ----

// Walk lists all paths (dirs with trailing slash) in sorted order.
func (f *FS) Walk(root string) []string {
	var out []string
	ino, err := f.lookup(root)
	if err != nil {
		return nil
	}
	var rec func(p string, i *inode)
	rec = func(p string, i *inode) {
		if i.dir {
			out = append(out, p+"/")
			for _, e := range dirEntries(i) {
				rec(path.Join(p, e.Name()), i.children[e.Name()])
			}
		} else {
			out = append(out, p)
		}
	}
	rec(clean(root), ino)
	return out
}

// FileBytes returns a copy of a file's content.
func (f *FS) FileBytes(name string) ([]byte, bool) {
	b, err := f.ReadFile(name)
	return b, err == nil
}

// SetFileBytes replaces a file's content without logging (damage injection).
func (f *FS) SetFileBytes(name string, b []byte) error {
	ino, err := f.lookup(name)
	if err != nil {
		return err
	}
	ino.pages = map[int64][]byte{}
	ino.size = 0
	ino.writeAt(b, 0)
	if len(b) == 0 {
		ino.size = 0
	}
	return nil
}

// Hash returns a content hash of the whole tree under root (FNV-1a over paths,
// sizes and non-zero pages).
func (f *FS) Hash(root string) uint64 {
	h := uint64(14695981039346656037)
	mix := func(b []byte) {
		for _, c := range b {
			h ^= uint64(c)
			h *= 1099511628211
		}
	}
	ino, err := f.lookup(root)
	if err != nil {
		return 0
	}
	var rec func(p string, i *inode)
	rec = func(p string, i *inode) {
		mix([]byte(p))
		if i.dir {
			for _, e := range dirEntries(i) {
				rec(p+"/"+e.Name(), i.children[e.Name()])
			}
			return
		}
		mix([]byte(fmt.Sprintf("|%d|", i.size)))
		pgs := make([]int64, 0, len(i.pages))
		for k := range i.pages {
			pgs = append(pgs, k)
		}
		sort.Slice(pgs, func(a, b int) bool { return pgs[a] < pgs[b] })
		for _, pg := range pgs {
			p := i.pages[pg]
			zero := true
			for _, c := range p {
				if c != 0 {
					zero = false
					break
				}
			}
			if zero {
				continue
			}
			mix([]byte(fmt.Sprintf("@%d", pg)))
			mix(p)
		}
	}
	rec(clean(root), ino)
	return h
}
