package simrt

import (
	"reflect"
	"unsafe"
)

// ---- channel operations ----
//
// Buffered channels keep their real buffer (len/cap stay truthful for the
// code under test); a task that would block parks with a predicate instead.
// Unbuffered channels rendezvous through a table owned by the simulator,
// because two pollers can never meet on a real unbuffered channel.

type rvSend struct {
	val   interface{} // *T
	taken bool
	sync  [2]int32 // race edges: [0] sender -> receiver, [1] receiver -> sender
}

type rvq struct {
	pin     interface{} // keeps the channel alive so its address is not reused
	senders []*rvSend
}

func chanKey(ch interface{}) uintptr { return reflect.ValueOf(ch).Pointer() }

func (s *Sim) q(ch interface{}) *rvq {
	k := chanKey(ch)
	q := s.rv[k]
	if q == nil {
		q = &rvq{pin: ch}
		s.rv[k] = q
	}
	return q
}

func (s *Sim) isClosed(ch interface{}) bool {
	_, ok := s.closed[chanKey(ch)]
	return ok
}

// Send is `ch <- v`.
func Send[T any](ch chan<- T, v T) {
	s := S
	if s == nil {
		ch <- v
		return
	}
	s.yield("send")
	s.Stats["send"]++
	if ch == nil {
		s.block(func() bool { return false }, "send-nil")
		return
	}
	if cap(ch) == 0 {
		if s.isClosed(ch) {
			panic("send on closed channel")
		}
		q := s.q(ch)
		req := &rvSend{val: &v}
		raceRelease(unsafe.Pointer(&req.sync[0]))
		q.senders = append(q.senders, req)
		s.block(func() bool { return req.taken || s.isClosed(ch) }, "send-unbuffered")
		if !req.taken {
			panic("send on closed channel")
		}
		raceAcquire(unsafe.Pointer(&req.sync[1]))
		return
	}
	for {
		if trySend(ch, v) {
			return
		}
		s.block(func() bool { return len(ch) < cap(ch) || s.isClosed(ch) }, "send")
	}
}

func trySend[T any](ch chan<- T, v T) bool {
	select {
	case ch <- v:
		return true
	default:
		return false
	}
}

// tryRecv attempts a non-blocking receive honouring the rendezvous table.
func tryRecv[T any](s *Sim, ch <-chan T) (v T, ok bool, got bool) {
	if ch == nil {
		return v, false, false
	}
	if cap(ch) == 0 {
		if q := s.rv[chanKey(ch)]; q != nil && len(q.senders) > 0 {
			req := q.senders[0]
			q.senders = q.senders[1:]
			req.taken = true
			raceAcquire(unsafe.Pointer(&req.sync[0]))
			raceRelease(unsafe.Pointer(&req.sync[1]))
			return *(req.val.(*T)), true, true
		}
	}
	select {
	case v, ok = <-ch:
		return v, ok, true
	default:
		return v, false, false
	}
}

// recvReady tells whether a receive could complete now, without consuming.
func recvReady[T any](s *Sim, ch <-chan T) bool {
	if ch == nil {
		return false
	}
	if len(ch) > 0 {
		return true
	}
	if cap(ch) == 0 {
		if q := s.rv[chanKey(ch)]; q != nil && len(q.senders) > 0 {
			return true
		}
	}
	if s.isClosed(ch) {
		return true
	}
	return false
}

// Recv2 is `v, ok := <-ch`.
func Recv2[T any](ch <-chan T) (T, bool) {
	s := S
	if s == nil {
		v, ok := <-ch
		return v, ok
	}
	s.yield("recv")
	s.Stats["recv"]++
	for {
		if v, ok, got := tryRecv(s, ch); got {
			return v, ok
		}
		// Channels closed by uninstrumented code (context.Done) are not in the
		// closed table: a parked receiver on such a channel re-probes whenever
		// anything else has happened.
		start := s.Steps
		s.block(func() bool { return recvReady(s, ch) || (s.Steps != start && probeClosed(ch)) }, "recv")
	}
}

// probeClosed detects a closed and drained channel without consuming a value:
// with len==0 a non-blocking receive can only succeed on a closed channel.
func probeClosed[T any](ch <-chan T) bool {
	if ch == nil || len(ch) > 0 {
		return false
	}
	select {
	case _, ok := <-ch:
		return !ok
	default:
		return false
	}
}

// Recv is `<-ch`.
func Recv[T any](ch <-chan T) T {
	v, _ := Recv2(ch)
	return v
}

// Close is `close(ch)`.
func Close[T any](ch chan<- T) {
	s := S
	if s == nil {
		close(ch)
		return
	}
	s.yield("close")
	s.Stats["close"]++
	close(ch)
	s.closed[chanKey(ch)] = ch
}

// ---- select ----

// Case is one communication clause of a select.
type Case interface {
	ready(s *Sim) bool
	fire(s *Sim) bool
}

type RecvC[T any] struct {
	ch <-chan T
	v  T
	ok bool
}

func RecvCase[T any](ch <-chan T) *RecvC[T] { return &RecvC[T]{ch: ch} }

func (c *RecvC[T]) ready(s *Sim) bool { return recvReady(s, c.ch) || probeClosed(c.ch) }
func (c *RecvC[T]) fire(s *Sim) bool {
	v, ok, got := tryRecv(s, c.ch)
	if got {
		c.v, c.ok = v, ok
	}
	return got
}
func (c *RecvC[T]) Val() T          { return c.v }
func (c *RecvC[T]) Val2() (T, bool) { return c.v, c.ok }

type SendC[T any] struct {
	ch chan<- T
	v  T
}

func SendCase[T any](ch chan<- T, v T) *SendC[T] { return &SendC[T]{ch: ch, v: v} }

func (c *SendC[T]) ready(s *Sim) bool {
	if c.ch == nil {
		return false
	}
	if cap(c.ch) == 0 {
		// a select-send on an unbuffered channel would need parked receivers to
		// be registered; marketstore has none. Closed: ready (will panic).
		return s.isClosed(c.ch)
	}
	return len(c.ch) < cap(c.ch) || s.isClosed(c.ch)
}
func (c *SendC[T]) fire(s *Sim) bool {
	if cap(c.ch) == 0 {
		panic("send on closed channel")
	}
	return trySend(c.ch, c.v)
}

// Select implements select{}: returns the index of the chosen case, or -1 for
// default. Which ready case is taken is a tape choice.
func Select(hasDefault bool, cases ...Case) int {
	s := S
	if s == nil {
		// outside a simulation: poll (only used by tests of the harness itself)
		for {
			for i, c := range cases {
				if c.ready(nil) && c.fire(nil) {
					return i
				}
			}
			if hasDefault {
				return -1
			}
		}
	}
	s.yield("select")
	s.Stats["select"]++
	for {
		var rdy []int
		for i, c := range cases {
			if c.ready(s) {
				rdy = append(rdy, i)
			}
		}
		if len(rdy) > 0 {
			i := rdy[s.Tape.Next(len(rdy))]
			if cases[i].fire(s) {
				if len(rdy) > 1 {
					s.Stats["select-choice"]++
				}
				return i
			}
			continue
		}
		if hasDefault {
			return -1
		}
		s.block(func() bool {
			for _, c := range cases {
				if c.ready(s) {
					return true
				}
			}
			return false
		}, "select")
	}
}
