//go:build race

package simrt

import (
	"runtime"
	"unsafe"
)

// RaceBuild: the simulator was built with the race detector. The baton is
// handed from task to task through real channels; those hand-offs are hidden
// from the detector (raceOff/raceOn around them), so the only happens-before
// edges it sees are the ones the program under test creates itself: the
// simulated Mutex/RWMutex/WaitGroup/Once, channel operations (buffered ones
// are real channel operations, unbuffered ones get explicit edges), the go
// statement, and real atomics. Two conflicting accesses it reports are
// therefore unordered by marketstore's own synchronisation in a schedule that
// replays from the seed.
const RaceBuild = true

func raceOff()                     { runtime.RaceDisable() }
func raceOn()                      { runtime.RaceEnable() }
func raceAcquire(p unsafe.Pointer) { runtime.RaceAcquire(p) }
func raceRelease(p unsafe.Pointer) { runtime.RaceReleaseMerge(p) }
