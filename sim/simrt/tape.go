package simrt

// Tape is the single source of every choice in a run. Values are drawn from a
// splitmix64 PRNG seeded by the run seed; a recorded prefix can be fed back
// (replay) and the remainder either continues from the PRNG or is all zeros
// (used when minimising: zero = "the boring choice").
type Tape struct {
	state  uint64
	replay []uint32
	zero   bool
	pos    int
	Rec    []uint32
	record bool
}

func NewTape(seed uint64, replay []uint32, zeroAfter bool) *Tape {
	return &Tape{state: seed*0x9E3779B97F4A7C15 + 0x1234567, replay: replay, zero: zeroAfter}
}

// Record makes the tape keep every value it hands out.
func (t *Tape) Record() { t.record = true }

func (t *Tape) raw() uint32 {
	t.state += 0x9E3779B97F4A7C15
	z := t.state
	z = (z ^ (z >> 30)) * 0xBF58476D1CE4E5B9
	z = (z ^ (z >> 27)) * 0x94D049BB133111EB
	z ^= z >> 31
	return uint32(z >> 32)
}

// Next returns a value in [0,n).
func (t *Tape) Next(n int) int {
	if n <= 1 {
		return 0
	}
	var v uint32
	if t.pos < len(t.replay) {
		v = t.replay[t.pos]
	} else if t.zero {
		v = 0
	} else {
		v = t.raw()
	}
	t.pos++
	if t.record {
		t.Rec = append(t.Rec, v)
	}
	return int(v % uint32(n))
}

// Pos returns the number of choices consumed so far.
func (t *Tape) Pos() int { return t.pos }

// Rand is a small independent PRNG (splitmix64) for generators: workloads are
// derived from the seed before the run, not from the schedule tape.
type Rand struct{ s uint64 }

func NewRand(seed uint64) *Rand { return &Rand{s: seed*0xD1342543DE82EF95 + 0x9E3779B9} }

func (r *Rand) U64() uint64 {
	r.s += 0x9E3779B97F4A7C15
	z := r.s
	z = (z ^ (z >> 30)) * 0xBF58476D1CE4E5B9
	z = (z ^ (z >> 27)) * 0x94D049BB133111EB
	return z ^ (z >> 31)
}

// Intn returns a value in [0,n).
func (r *Rand) Intn(n int) int {
	if n <= 1 {
		return 0
	}
	return int(r.U64() % uint64(n))
}

func (r *Rand) Int63n(n int64) int64 {
	if n <= 1 {
		return 0
	}
	return int64(r.U64() % uint64(n))
}

func (r *Rand) Float() float64 { return float64(r.U64()>>11) / (1 << 53) }

// Pct returns true with probability p percent.
func (r *Rand) Pct(p int) bool { return r.Intn(100) < p }

// Fork derives an independent stream.
func (r *Rand) Fork() *Rand { return NewRand(r.U64()) }
