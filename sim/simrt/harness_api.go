package simrt

// WaitUntil parks the calling task until pred() holds (harness-side blocking:
// simulated transports, barriers). pred is evaluated with the baton held.
func WaitUntil(pred func() bool, what string) {
	s := S
	if s == nil {
		if !pred() {
			panic("simrt: WaitUntil would block outside a simulation")
		}
		return
	}
	s.yield("wait-" + what)
	for !pred() {
		s.block(pred, what)
	}
}
