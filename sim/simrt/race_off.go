//go:build !race

package simrt

import "unsafe"

const RaceBuild = false

func raceOff()                     {}
func raceOn()                      {}
func raceAcquire(p unsafe.Pointer) {}
func raceRelease(p unsafe.Pointer) {}
