// Package simrt is the deterministic runtime of the simulator: a cooperative
// scheduler that runs exactly one task at a time, a virtual clock with timers,
// and replacements for channels operations, select, sync primitives and map
// iteration whose every choice is drawn from one seeded tape.
//
// The instrumenter (tools/instrument) redirects `go`, `<-`, `select`, `close`,
// `sync.*`, `time.*` in marketstore's packages to this package.
package simrt

import (
	"container/heap"
	"fmt"
	"os"
	"runtime"
	"strings"
	"time"
	"unsafe"
)

// Config of one simulation run.
type Config struct {
	Seed       uint64
	PreemptPct int   // probability (percent) to switch task at a yield point
	// SlowPermille: probability (per mille) that, at a yield point, the running
	// task stalls until the deadline of a pending timer (usually the next one).
	// Without it a tick can never land in the middle of a request, because
	// operations take no virtual time; real stalls (I/O, GC, scheduling) allow it.
	SlowPermille int
	StartNanos int64 // virtual wall clock at start (unix nanos)
	MaxSteps   uint64
	ShuffleMap bool     // permute map iteration order from the tape (else sorted)
	Replay     []uint32 // optional recorded tape to feed first
	ZeroAfter  bool     // after Replay is exhausted feed zeros instead of the PRNG
}

type taskState int

const (
	stReady taskState = iota
	stRunning
	stBlocked
	stDone
)

// Task is one simulated goroutine.
type Task struct {
	ID     int
	Name   string
	state  taskState
	wake   func() bool
	what   string
	resume chan struct{}
	exited chan struct{}
	Panic  interface{}
	Stack  string
}

type timer struct {
	when int64
	seq  uint64
	fire func()
	dead  bool
	fired bool
	idx   int
}

type timerHeap []*timer

func (h timerHeap) Len() int { return len(h) }
func (h timerHeap) Less(i, j int) bool {
	if h[i].when != h[j].when {
		return h[i].when < h[j].when
	}
	return h[i].seq < h[j].seq
}
func (h timerHeap) Swap(i, j int)       { h[i], h[j] = h[j], h[i]; h[i].idx = i; h[j].idx = j }
func (h *timerHeap) Push(x interface{}) { t := x.(*timer); t.idx = len(*h); *h = append(*h, t) }
func (h *timerHeap) Pop() interface{} {
	old := *h
	n := len(old)
	t := old[n-1]
	*h = old[:n-1]
	return t
}

// Sim is one simulation. Exactly one is active per process at a time (S).
type Sim struct {
	cfg     Config
	tasks   []*Task
	cur     *Task
	now     int64
	timers  timerHeap
	tseq    uint64
	Steps   uint64
	Tape    *Tape
	killed  bool
	ended   bool
	mainCh  chan struct{}
	rv      map[uintptr]*rvq
	closed  map[uintptr]interface{}
	Err     error // deadlock / step cap
	Panics  []*Task
	Sched   uint64 // rolling hash of the schedule (task id at every switch)
	Switch  uint64 // number of context switches
	Preempt uint64 // number of preemptive switches
	Stats   map[string]uint64
	// Hook called (with the baton held) at every yield with the site label.
	OnYield func(site string)
	yw      *yieldWaiter
	// SwitchInsideOp counts preemptions that happened while HarnessFlag was set
	// (the harness sets it while a client request is in flight).
	InFlight       int
	SwitchInFlight uint64
	startSync      int32 // race edges: Run's caller -> root task
	endSync        int32 // race edges: every task's end -> Run's return
	skipped        int
	TimeAdvances   uint64
	DeadlockStacks string
}

// GlobalMaxPreempt (>= 0) caps the number of preemptive switches of every
// simulation in this process (used when minimising a failing schedule).
var traceTasks = os.Getenv("VERIF_LOG_TASKS") != ""

var GlobalMaxPreempt = -1

// GlobalSkipPreempt suppresses the first K preemptive switches of every
// simulation (the minimiser's other knob: together they leave a window).
var GlobalSkipPreempt = 0

// MaxPreemptSeen is the largest number of preemptions any simulation since
// the last reset performed (reported with a violation so that the minimiser
// knows the search range).
var MaxPreemptSeen int

// DebugStacks makes a deadlock capture all goroutine stacks.
var DebugStacks bool

// S is the active simulation (nil outside Run).
var S *Sim

// ErrKilled marks tasks torn down at the end of a simulation.
type killedT struct{}

// Run executes root as task 0 under a fresh simulation and returns the
// simulation once root has returned (or the run deadlocked / hit the step
// cap). All other tasks still alive are then torn down.
func Run(cfg Config, root func()) *Sim {
	if S != nil {
		panic("simrt: nested Run")
	}
	if cfg.MaxSteps == 0 {
		cfg.MaxSteps = 50_000_000
	}
	if cfg.StartNanos == 0 {
		cfg.StartNanos = time.Date(2021, 6, 15, 12, 0, 0, 0, time.UTC).UnixNano()
	}
	s := &Sim{cfg: cfg, now: cfg.StartNanos, Tape: NewTape(cfg.Seed, cfg.Replay, cfg.ZeroAfter),
		mainCh: make(chan struct{}, 1), rv: map[uintptr]*rvq{}, closed: map[uintptr]interface{}{},
		Stats: map[string]uint64{}}
	S = s
	t := s.newTask("root", func() {
		root()
		s.ended = true
	})
	s.cur = t
	t.state = stRunning
	// whatever the caller did before Run happens-before the root task, and every
	// task's end happens-before Run's return; nothing else about the hand-offs
	// is visible to the race detector
	raceRelease(unsafe.Pointer(&s.startSync))
	raceOff()
	t.resume <- struct{}{}
	<-s.mainCh
	// tear down: no task is running now
	s.killed = true
	for _, t := range s.tasks {
		if t.state != stDone {
			t.resume <- struct{}{}
			<-t.exited
		}
	}
	raceOn()
	raceAcquire(unsafe.Pointer(&s.endSync))
	S = nil
	if int(s.Preempt) > MaxPreemptSeen {
		MaxPreemptSeen = int(s.Preempt)
	}
	return s
}

func (s *Sim) newTask(name string, f func()) *Task {
	t := &Task{ID: len(s.tasks), Name: name, resume: make(chan struct{}, 1), exited: make(chan struct{})}
	s.tasks = append(s.tasks, t)
	go func() {
		defer close(t.exited)
		raceOff()
		<-t.resume
		raceOn()
		if s.killed {
			t.state = stDone
			return
		}
		if t.ID == 0 {
			raceAcquire(unsafe.Pointer(&s.startSync))
		}
		if traceTasks {
			fmt.Printf("  TASK start id=%d %s t=%d\n", t.ID, t.Name, s.now)
		}
		defer func() {
			raceRelease(unsafe.Pointer(&s.endSync))
			raceOff() // the rest is hand-off (no raceOn: the goroutine ends here)
			if s.killed {
				t.state = stDone
				return
			}
			if r := recover(); r != nil {
				t.Panic = r
				buf := make([]byte, 16384)
				buf = buf[:runtime.Stack(buf, false)]
				t.Stack = string(buf)
				s.Panics = append(s.Panics, t)
			}
			t.state = stDone
			s.finish(t)
		}()
		f()
	}()
	return t
}

// finish is called on the finishing task's goroutine, baton still held.
func (s *Sim) finish(t *Task) {
	if t.ID == 0 || s.ended || s.Err != nil {
		s.ended = true
		s.mainCh <- struct{}{}
		return
	}
	next := s.pickBlocking()
	if next == nil {
		// deadlock or step cap recorded in s.Err
		s.mainCh <- struct{}{}
		return
	}
	s.cur = next
	next.state = stRunning
	next.resume <- struct{}{}
}

func (s *Sim) checkKilled() {
	if s.killed {
		runtime.Goexit()
	}
}

// runnable returns the tasks that could run now, in id order.
func (s *Sim) runnable(except *Task) []*Task {
	var r []*Task
	for _, t := range s.tasks {
		if t == except {
			continue
		}
		switch t.state {
		case stReady:
			r = append(r, t)
		case stBlocked:
			if t.wake != nil && t.wake() {
				r = append(r, t)
			}
		}
	}
	return r
}

// pickBlocking chooses the next task when the current one cannot continue;
// advances virtual time if nothing is runnable. Returns nil on deadlock.
func (s *Sim) pickBlocking() *Task {
	for {
		r := s.runnable(nil)
		if len(r) > 0 {
			return r[s.Tape.Next(len(r))]
		}
		if !s.advanceTime() {
			s.Err = fmt.Errorf("deadlock: no runnable task and no timer; %s", s.describeBlocked())
			if DebugStacks {
				buf := make([]byte, 1<<20)
				buf = buf[:runtime.Stack(buf, true)]
				s.DeadlockStacks = string(buf)
			}
			return nil
		}
		if s.Steps > s.cfg.MaxSteps {
			s.Err = fmt.Errorf("step cap %d exceeded", s.cfg.MaxSteps)
			return nil
		}
	}
}

func (s *Sim) describeBlocked() string {
	var b []string
	for _, t := range s.tasks {
		if t.state == stBlocked {
			b = append(b, fmt.Sprintf("%d:%s@%s", t.ID, t.Name, t.what))
		}
	}
	return strings.Join(b, ", ")
}

// advanceTime pops the earliest timer, moves the clock there and fires it.
func (s *Sim) advanceTime() bool {
	for s.timers.Len() > 0 {
		t := heap.Pop(&s.timers).(*timer)
		if t.dead {
			continue
		}
		if t.when > s.now {
			s.now = t.when
		}
		s.Steps++
		s.TimeAdvances++
		t.fired = true
		// a timer firing on whichever task happened to be scheduling must not
		// order that task's past before the tick's receiver
		raceOff()
		defer raceOn()
		t.fire()
		// every timer due at this same instant fires before any task runs, so
		// that a select can really find several ready cases (tickers with a
		// common multiple, a tick and a deadline)
		for s.timers.Len() > 0 && s.timers[0].when <= s.now {
			t2 := heap.Pop(&s.timers).(*timer)
			if t2.dead {
				continue
			}
			t2.fired = true
			t2.fire()
		}
		return true
	}
	return false
}

func (s *Sim) addTimer(d time.Duration, f func()) *timer {
	if d < 0 {
		d = 0
	}
	s.tseq++
	t := &timer{when: s.now + int64(d), seq: s.tseq, fire: f}
	heap.Push(&s.timers, t)
	return t
}

func (s *Sim) switchTo(next *Task) {
	cur := s.cur
	s.Switch++
	s.Sched = s.Sched*1099511628211 + uint64(next.ID) + 1
	s.cur = next
	next.state = stRunning
	raceOff()
	next.resume <- struct{}{}
	<-cur.resume
	raceOn()
	s.checkKilled()
}

func (s *Sim) fail(err error) {
	if s.Err == nil {
		s.Err = err
	}
	raceOff()
	s.mainCh <- struct{}{}
	<-s.cur.resume
	raceOn()
	s.checkKilled()
}

// yield is a scheduling point: the current task may be preempted.
func (s *Sim) yield(site string) {
	s.checkKilled()
	s.Steps++
	if s.Steps > s.cfg.MaxSteps {
		s.fail(fmt.Errorf("step cap %d exceeded at %s", s.cfg.MaxSteps, site))
	}
	if s.OnYield != nil {
		s.OnYield(site)
	}
	if w := s.yw; w != nil && s.cur != w.t {
		w.k--
		if w.k <= 0 && w.t.state == stBlocked {
			// the k-th scheduling point of the other tasks: the waiting task runs now,
			// in the middle of whatever the current task was doing
			w.fired = true
			s.yw = nil
			s.Stats["yield-count-wakeup"]++
			s.cur.state = stReady
			if s.InFlight > 0 {
				s.SwitchInFlight++
			}
			s.switchTo(w.t)
			return
		}
	}
	if s.cfg.SlowPermille > 0 && s.timers.Len() > 0 && !(GlobalMaxPreempt >= 0 && int(s.Preempt) >= GlobalMaxPreempt) &&
		s.Tape.Next(1000) < s.cfg.SlowPermille {
		if s.skipped < GlobalSkipPreempt {
			s.skipped++
		} else {
			// the running task stalls (I/O, GC, descheduled) until a pending timer's
			// deadline: every other task keeps running, the clock only moves when
			// they are all blocked, and the stalled task resumes at the very instant
			// that timer fires - in the middle of whatever it was doing
			// (only the next deadline, and only if it is near: a task that sleeps
			// through minutes of other tasks' work is a different experiment, and
			// liveness oracles would have to discount it)
			ti := 0
			if dl := s.timers[ti].when; !s.timers[ti].dead && dl > s.now && dl-s.now <= int64(time.Second) {
				s.Preempt++ // counted with the preemptions: the minimiser shrinks both with one budget
				s.Stats["stall-until-timer"]++
				woke := false
				s.addTimer(time.Duration(dl-s.now), func() { woke = true }) // own timer: the other one may be stopped
				s.block(func() bool { return woke }, "stalled")
			}
		}
	}
	if s.cfg.PreemptPct <= 0 {
		return
	}
	// minimisation: after the preemption budget is used up the rest of the run
	// is "boring" (the current task keeps running until it blocks)
	if GlobalMaxPreempt >= 0 && int(s.Preempt) >= GlobalMaxPreempt {
		return
	}
	if s.Tape.Next(100) < 100-s.cfg.PreemptPct {
		return
	}
	r := s.runnable(s.cur)
	if len(r) == 0 {
		return
	}
	if s.skipped < GlobalSkipPreempt {
		s.skipped++ // minimisation: the first K preemptions are suppressed
		return
	}
	next := r[s.Tape.Next(len(r))]
	s.cur.state = stReady
	s.Preempt++
	if s.InFlight > 0 {
		s.SwitchInFlight++
	}
	s.switchTo(next)
}

// block parks the current task until wake() holds.
func (s *Sim) block(wake func() bool, what string) {
	s.checkKilled()
	cur := s.cur
	cur.state = stBlocked
	cur.wake = wake
	cur.what = what
	next := s.pickBlocking()
	if next == nil {
		raceOff()
		s.mainCh <- struct{}{}
		<-cur.resume
		raceOn()
		s.checkKilled()
		return
	}
	if next == cur {
		cur.state = stRunning
		cur.wake = nil
		return
	}
	s.switchTo(next)
	cur.wake = nil
}

// ---- public API used by instrumented code and the harness ----

// Go starts f as a new task.
func Go(f func()) {
	s := S
	if s == nil {
		go f()
		return
	}
	s.checkKilled()
	name := callerName(2)
	t := s.newTask(name, f)
	t.state = stReady
	s.Stats["go"]++
	s.yield("go")
}

// GoNamed is Go with an explicit task name (harness use).
func GoNamed(name string, f func()) *Task {
	s := S
	t := s.newTask(name, f)
	t.state = stReady
	return t
}

func callerName(skip int) string {
	pc, _, _, ok := runtime.Caller(skip)
	if !ok {
		return "?"
	}
	fn := runtime.FuncForPC(pc)
	if fn == nil {
		return "?"
	}
	n := fn.Name()
	if i := strings.LastIndex(n, "/"); i >= 0 {
		n = n[i+1:]
	}
	return n
}

// Yield is an explicit scheduling point.
func Yield(site string) {
	if S != nil {
		S.yield(site)
	}
}

// Now returns the virtual wall clock.
func Now() time.Time {
	if S == nil {
		return time.Unix(0, fallbackNow).UTC()
	}
	return time.Unix(0, S.now)
}

var fallbackNow = time.Date(2021, 6, 15, 12, 0, 0, 0, time.UTC).UnixNano()

// NowNanos returns the virtual clock in unix nanoseconds.
func NowNanos() int64 {
	if S == nil {
		return fallbackNow
	}
	return S.now
}

// AdvanceClock moves the virtual clock forward by d without running timers in
// between (harness use: restarts, clock jumps). Negative d jumps backwards.
func AdvanceClock(d time.Duration) {
	if S == nil {
		fallbackNow += int64(d)
		return
	}
	S.now += int64(d)
}

func Since(t time.Time) time.Duration { return Now().Sub(t) }
func Until(t time.Time) time.Duration { return t.Sub(Now()) }

// Sleep parks the task for d of virtual time.
func Sleep(d time.Duration) {
	s := S
	if s == nil {
		fallbackNow += int64(d)
		return
	}
	s.checkKilled()
	done := false
	s.addTimer(d, func() { done = true })
	s.block(func() bool { return done }, "sleep")
}

type yieldWaiter struct {
	t     *Task
	k     int
	fired bool
}

// WaitYields parks the calling task until the other tasks have passed k
// scheduling points (then it is resumed at once, preempting whoever runs), or
// until the timeout has elapsed in virtual time. It reports whether the count
// was reached. The harness uses it to place an event (a shutdown request) at
// an arbitrary point inside other tasks' work rather than at a quiescent
// instant, which is all a Sleep can reach.
func WaitYields(k int, timeout time.Duration) bool {
	s := S
	s.checkKilled()
	w := &yieldWaiter{t: s.cur, k: k}
	s.yw = w
	timedOut := false
	s.addTimer(timeout, func() { timedOut = true })
	s.block(func() bool { return w.fired || timedOut }, "wait-yields")
	if s.yw == w {
		s.yw = nil
	}
	return w.fired
}

// Ticker mirrors time.Ticker.
type Ticker struct {
	C    chan time.Time
	d    time.Duration
	t    *timer
	dead bool
}

func NewTicker(d time.Duration) *Ticker {
	if d <= 0 {
		panic("non-positive interval for NewTicker")
	}
	tk := &Ticker{C: make(chan time.Time, 1), d: d}
	if S != nil {
		tk.arm()
	}
	return tk
}

func (tk *Ticker) arm() {
	s := S
	tk.t = s.addTimer(tk.d, func() {
		if tk.dead {
			return
		}
		select {
		case tk.C <- time.Unix(0, s.now):
		default:
		}
		tk.arm()
	})
}

func (tk *Ticker) Stop() {
	tk.dead = true
	if tk.t != nil {
		tk.t.dead = true
	}
}

func (tk *Ticker) Reset(d time.Duration) {
	tk.Stop()
	tk.dead = false
	tk.d = d
	if S != nil {
		tk.arm()
	}
}

func Tick(d time.Duration) <-chan time.Time { return NewTicker(d).C }

// Timer mirrors time.Timer.
type Timer struct {
	C chan time.Time
	t *timer
	f func()
}

func NewTimer(d time.Duration) *Timer {
	tm := &Timer{C: make(chan time.Time, 1)}
	tm.start(d)
	return tm
}

func (tm *Timer) start(d time.Duration) {
	s := S
	if s == nil {
		return
	}
	tm.t = s.addTimer(d, func() {
		if tm.f != nil {
			f := tm.f
			t := s.newTask("afterfunc", f)
			t.state = stReady
			return
		}
		select {
		case tm.C <- time.Unix(0, s.now):
		default:
		}
	})
}

func (tm *Timer) Stop() bool {
	if tm.t == nil || tm.t.dead || tm.t.fired {
		return false
	}
	tm.t.dead = true
	return true
}

func (tm *Timer) Reset(d time.Duration) bool {
	a := tm.Stop()
	tm.start(d)
	return a
}

func After(d time.Duration) <-chan time.Time { return NewTimer(d).C }

func AfterFunc(d time.Duration, f func()) *Timer {
	tm := &Timer{f: f}
	tm.start(d)
	return tm
}

// ---- knobs ----

var knobVals = map[string]int{}
var knobSeen = map[string]int{}

// KnobVal is emitted by the instrumenter around uses of selected integer
// constants (channel depths): the harness may override them per run.
func KnobVal(name string, def int) int {
	knobSeen[name] = def
	if v, ok := knobVals[name]; ok && v > 0 {
		return v
	}
	return def
}

// SetKnob overrides a knob for subsequent uses; v<=0 restores the default.
func SetKnob(name string, v int) {
	if v <= 0 {
		delete(knobVals, name)
		return
	}
	knobVals[name] = v
}

// KnobNames lists knobs seen so far with their defaults.
func KnobNames() map[string]int { return knobSeen }

// CurTaskID returns the id of the running task (-1 outside a simulation).
func CurTaskID() int {
	if S == nil || S.cur == nil {
		return -1
	}
	return S.cur.ID
}

// VirtualElapsed returns the virtual time elapsed since the start of the run.
func (s *Sim) VirtualElapsed() time.Duration { return time.Duration(s.now - s.cfg.StartNanos) }

// Tasks returns the number of tasks created.
func (s *Sim) Tasks() int { return len(s.tasks) }

// TaskName returns the name of task id ("" if unknown).
func (s *Sim) TaskName(id int) string {
	if id < 0 || id >= len(s.tasks) {
		return ""
	}
	return s.tasks[id].Name
}
