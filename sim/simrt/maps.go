package simrt

import (
	"fmt"
	"sort"
)

// MapKeys returns the keys of m in a canonical (sorted) order, permuted from
// the tape when the run has ShuffleMap set. The instrumenter rewrites every
// `range` over a map into a loop over MapKeys(m), which removes Go's random
// iteration order as an uncontrolled source of nondeterminism and turns it
// into an explored choice.
func MapKeys[K comparable, V any](m map[K]V) []K {
	keys := make([]K, 0, len(m))
	for k := range m {
		keys = append(keys, k)
	}
	if len(keys) < 2 {
		return keys
	}
	switch ks := any(keys).(type) {
	case []string:
		sort.Strings(ks)
	case []int:
		sort.Ints(ks)
	case []int64:
		sort.Slice(ks, func(i, j int) bool { return ks[i] < ks[j] })
	default:
		r := make([]string, len(keys))
		idx := make([]int, len(keys))
		for i, k := range keys {
			r[i] = fmt.Sprintf("%v", k)
			idx[i] = i
		}
		sort.SliceStable(idx, func(a, b int) bool { return r[idx[a]] < r[idx[b]] })
		out := make([]K, len(keys))
		for i, j := range idx {
			out[i] = keys[j]
		}
		keys = out
	}
	s := S
	if s != nil && s.cfg.ShuffleMap && !s.killed {
		// one tape draw seeds the permutation; 0 = keep sorted order
		v := s.Tape.Next(1 << 30)
		if v != 0 {
			r := NewRand(uint64(v))
			for i := len(keys) - 1; i > 0; i-- {
				j := r.Intn(i + 1)
				keys[i], keys[j] = keys[j], keys[i]
			}
			s.Stats["map-shuffled"]++
		}
	}
	return keys
}
