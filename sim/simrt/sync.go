package simrt

import "unsafe"

// Replacements for sync.Mutex / RWMutex / WaitGroup / Once / Cond. State lives
// in plain fields: only the task holding the baton touches it.

type Mutex struct {
	locked bool
}

func (m *Mutex) Lock() {
	s := S
	if s == nil {
		if m.locked {
			panic("simrt: Mutex would block outside a simulation")
		}
		m.locked = true
		return
	}
	s.yield("lock")
	for m.locked {
		s.Stats["lock-contended"]++
		s.block(func() bool { return !m.locked }, "mutex")
	}
	m.locked = true
	raceAcquire(unsafe.Pointer(m))
}

func (m *Mutex) TryLock() bool {
	if m.locked {
		return false
	}
	m.locked = true
	raceAcquire(unsafe.Pointer(m))
	return true
}

func (m *Mutex) Unlock() {
	if !m.locked {
		panic("sync: unlock of unlocked mutex")
	}
	raceRelease(unsafe.Pointer(m))
	m.locked = false
	if S != nil && !S.killed {
		S.yield("unlock")
	}
}

// RWMutex with Go's writer preference: a waiting writer blocks new readers.
type RWMutex struct {
	readers  int
	writer   bool
	wwaiting int
	rsync    int32 // race edges: released by writers, acquired by readers and writers
	wsync    int32 // race edges: released by readers, acquired by writers
}

func (m *RWMutex) RLock() {
	s := S
	if s == nil {
		if m.writer {
			panic("simrt: RWMutex would block outside a simulation")
		}
		m.readers++
		return
	}
	s.yield("rlock")
	for m.writer || m.wwaiting > 0 {
		s.Stats["lock-contended"]++
		s.block(func() bool { return !m.writer && m.wwaiting == 0 }, "rwmutex-r")
	}
	m.readers++
	raceAcquire(unsafe.Pointer(&m.rsync))
}

func (m *RWMutex) RUnlock() {
	if m.readers <= 0 {
		panic("sync: RUnlock of unlocked RWMutex")
	}
	raceRelease(unsafe.Pointer(&m.wsync))
	m.readers--
	if S != nil && !S.killed {
		S.yield("runlock")
	}
}

func (m *RWMutex) Lock() {
	s := S
	if s == nil {
		if m.writer || m.readers > 0 {
			panic("simrt: RWMutex would block outside a simulation")
		}
		m.writer = true
		return
	}
	s.yield("wlock")
	if m.writer || m.readers > 0 {
		m.wwaiting++
		s.Stats["lock-contended"]++
		for m.writer || m.readers > 0 {
			s.block(func() bool { return !m.writer && m.readers == 0 }, "rwmutex-w")
		}
		m.wwaiting--
	}
	m.writer = true
	raceAcquire(unsafe.Pointer(&m.rsync))
	raceAcquire(unsafe.Pointer(&m.wsync))
}

func (m *RWMutex) Unlock() {
	if !m.writer {
		panic("sync: Unlock of unlocked RWMutex")
	}
	raceRelease(unsafe.Pointer(&m.rsync))
	m.writer = false
	if S != nil && !S.killed {
		S.yield("wunlock")
	}
}

type WaitGroup struct {
	n int
}

func (wg *WaitGroup) Add(d int) {
	if d < 0 {
		raceRelease(unsafe.Pointer(wg))
	}
	wg.n += d
	if wg.n < 0 {
		panic("sync: negative WaitGroup counter")
	}
}

// Count returns the current counter (harness use).
func (wg *WaitGroup) Count() int { return wg.n }

func (wg *WaitGroup) Done() {
	wg.Add(-1)
	if S != nil && !S.killed {
		S.yield("wg-done")
	}
}

func (wg *WaitGroup) Wait() {
	s := S
	if s == nil {
		if wg.n != 0 {
			panic("simrt: WaitGroup would block outside a simulation")
		}
		raceAcquire(unsafe.Pointer(wg))
		return
	}
	s.yield("wg-wait")
	for wg.n > 0 {
		s.block(func() bool { return wg.n == 0 }, "waitgroup")
	}
	raceAcquire(unsafe.Pointer(wg))
}

type Once struct {
	done    bool
	running bool
}

func (o *Once) Do(f func()) {
	if o.done {
		raceAcquire(unsafe.Pointer(o))
		return
	}
	if o.running {
		s := S
		if s == nil {
			panic("simrt: Once would block outside a simulation")
		}
		for !o.done {
			s.block(func() bool { return o.done }, "once")
		}
		raceAcquire(unsafe.Pointer(o))
		return
	}
	o.running = true
	defer func() { raceRelease(unsafe.Pointer(o)); o.done = true; o.running = false }()
	f()
}

// Locker mirrors sync.Locker.
type Locker interface {
	Lock()
	Unlock()
}

type Cond struct {
	L       Locker
	waiters []*bool
}

func NewCond(l Locker) *Cond { return &Cond{L: l} }

func (c *Cond) Wait() {
	s := S
	if s == nil {
		panic("simrt: Cond.Wait outside a simulation")
	}
	woken := false
	c.waiters = append(c.waiters, &woken)
	c.L.Unlock()
	for !woken {
		s.block(func() bool { return woken }, "cond")
	}
	c.L.Lock()
}

func (c *Cond) Signal() {
	if len(c.waiters) > 0 {
		*c.waiters[0] = true
		c.waiters = c.waiters[1:]
	}
}

func (c *Cond) Broadcast() {
	for _, w := range c.waiters {
		*w = true
	}
	c.waiters = nil
}
