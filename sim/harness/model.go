package harness

import (
	"fmt"
	"sort"
	"time"
)

// Model is the executable reference model of the storage API: per bucket a
// last-writer-wins interval map (fixed) or a time-ordered multiset (variable).
// It knows nothing about the on-disk format.
type Model struct {
	B map[string]*MBucket
}

type MBucket struct {
	B     *Bucket
	Fixed map[int64]int64 // interval start (unix nanos) -> record id
	Var   []Rec           // multiset in insertion order
}

func NewModel() *Model { return &Model{B: map[string]*MBucket{}} }

func (m *Model) Clone() *Model {
	n := NewModel()
	for k, b := range m.B {
		nb := &MBucket{B: b.B, Fixed: make(map[int64]int64, len(b.Fixed)), Var: append([]Rec(nil), b.Var...)}
		for i, v := range b.Fixed {
			nb.Fixed[i] = v
		}
		n.B[k] = nb
	}
	return n
}

func (m *Model) Create(b *Bucket) {
	m.B[b.Key()] = &MBucket{B: b, Fixed: map[int64]int64{}}
}

func (m *Model) Destroy(key string) { delete(m.B, key) }

// IntervalStart returns the start of the interval of tf containing t (UTC).
func IntervalStart(t int64, tf time.Duration) int64 {
	return floorDiv(t, int64(tf)) * int64(tf)
}

// ApplyWrite applies an accepted write (whole request).
func (m *Model) ApplyWrite(reqs ...*WriteReq) {
	for _, wr := range reqs {
		for _, p := range wr.Parts {
			mb := m.B[p.B.Key()]
			if mb == nil {
				m.Create(p.B)
				mb = m.B[p.B.Key()]
			}
			for _, r := range p.Recs {
				if p.B.Variable {
					mb.Var = append(mb.Var, r)
				} else {
					mb.Fixed[IntervalStart(r.T, p.B.TFDur())] = r.ID
				}
			}
		}
	}
}

// ExpRow is a row the model expects.
type ExpRow struct {
	T  int64 // fixed: interval start; variable: written time
	ID int64
}

// AllRows returns the expected all-time result of a bucket in order.
func (mb *MBucket) AllRows() []ExpRow {
	var out []ExpRow
	if mb.B.Variable {
		for _, r := range mb.Var {
			out = append(out, ExpRow{T: r.T, ID: r.ID})
		}
		sort.SliceStable(out, func(i, j int) bool { return out[i].T < out[j].T })
		return out
	}
	for t, id := range mb.Fixed {
		out = append(out, ExpRow{T: t, ID: id})
	}
	sort.Slice(out, func(i, j int) bool { return out[i].T < out[j].T })
	return out
}

// ExpectedSig renders the value columns the bucket must return for id, in the
// order given by names (result column order).
func ExpectedVal(b *Bucket, id int64, name string) (interface{}, bool) {
	idc := b.idCol()
	if o, ok := b.Overrides[id]; ok {
		if v, ok := o[name]; ok {
			return v, true
		}
	}
	for j, c := range b.Cols {
		if c.Name == name {
			return bucketColVal(b, id, j, idc), true
		}
	}
	return nil, false
}

// RowID extracts the record id of a returned row and verifies that every value
// column is the one derived from that id (a row mixing two writes fails).
func RowID(b *Bucket, r *OutRow) (int64, error) {
	idc := b.idCol()
	if idc < 0 {
		return 0, fmt.Errorf("bucket has no Id column")
	}
	v, ok := r.Val("Id")
	if !ok {
		return 0, fmt.Errorf("row has no Id column (columns %v)", r.Names)
	}
	id, ok := v.(int64)
	if !ok {
		return 0, fmt.Errorf("Id column has type %T", v)
	}
	for i, n := range r.Names {
		exp, ok := ExpectedVal(b, id, n)
		if !ok {
			return id, fmt.Errorf("unexpected column %q", n)
		}
		if exp != normVal(r.Vals[i], exp) {
			return id, fmt.Errorf("column %s of row id=%d is %v (%T), expected %v (%T): torn or mixed row", n, id, r.Vals[i], r.Vals[i], exp, exp)
		}
	}
	return id, nil
}

// normVal maps a returned value to the Go type the harness uses for the
// column: marketstore's "i1" element type (BYTE) is read back as a uint8 with
// the same bits, which is not a difference in value.
func normVal(got, exp interface{}) interface{} {
	if _, ok := exp.(int8); ok {
		if u, ok := got.(uint8); ok {
			return int8(u)
		}
	}
	return got
}

// Mismatch describes a divergence between model and observed rows.
type Mismatch struct {
	Class  string // e.g. "missing", "extra", "wrong-value", "order", "dup", "time", "row-corrupt"
	Detail string
	T      int64 // the interval / record time the mismatch is about (0 if none)
}

func (m *Mismatch) Error() string { return m.Class + ": " + m.Detail }

// VarTimeOK checks C09's timestamp tolerance: the returned time lies in the
// record's interval, is not later than the written time, and is earlier by
// less than tf/2^32 (compared exactly: d*2^32 < tf).
func VarTimeOK(written, got int64, tf time.Duration) bool {
	if got > written {
		return false
	}
	// returned timestamps are whole nanoseconds: the stored value x satisfies
	// written - tf/2^32 < x <= written and is rounded to the nearest nanosecond,
	// hence d < tf/2^32 + 0.5, compared exactly as d*2^32 < tf + 2^31.
	d := written - got
	if d > int64(tf)>>32+1 {
		return false
	}
	if d<<32 >= int64(tf)+(1<<31) {
		return false
	}
	return IntervalStart(written, tf) == IntervalStart(got, tf)
}

// CompareAll compares an all-time result against the model for one bucket.
// The checks are the statement of C08 (fixed) / C09 (variable).
func CompareAll(mb *MBucket, rows []OutRow) *Mismatch {
	exp := mb.AllRows()
	b := mb.B
	if !b.Variable {
		// one row per written interval, ascending, stamped with interval start,
		// carrying the values of the last write
		got := map[int64]int64{}
		var prev int64
		for i := range rows {
			r := &rows[i]
			id, err := RowID(b, r)
			if err != nil {
				return &Mismatch{"row-corrupt", fmt.Sprintf("t=%s: %v", ts(r.T), err), r.T}
			}
			if i > 0 && r.T <= prev {
				return &Mismatch{"order", fmt.Sprintf("row %d t=%s not after previous %s", i, ts(r.T), ts(prev)), r.T}
			}
			prev = r.T
			if _, dup := got[r.T]; dup {
				return &Mismatch{"dup", fmt.Sprintf("interval %s returned twice", ts(r.T)), r.T}
			}
			got[r.T] = id
		}
		for _, e := range exp {
			id, ok := got[e.T]
			if !ok {
				return &Mismatch{"missing", fmt.Sprintf("interval %s (id %d) not returned", ts(e.T), e.ID), e.T}
			}
			if id != e.ID {
				return &Mismatch{"wrong-value", fmt.Sprintf("interval %s holds id %d, expected id %d (last write)", ts(e.T), id, e.ID), e.T}
			}
		}
		if len(got) != len(exp) {
			for i := range rows {
				t := rows[i].T
				if _, ok := mb.Fixed[t]; !ok {
					return &Mismatch{"extra", fmt.Sprintf("row at %s (id %d) was never written", ts(t), got[t]), t}
				}
			}
		}
		return nil
	}
	// variable: multiset equality by id, non-decreasing time, timestamp tolerance
	want := map[int64][]int64{} // id -> written times
	for _, e := range exp {
		want[e.ID] = append(want[e.ID], e.T)
	}
	seen := map[int64]int{}
	var prev int64
	for i := range rows {
		r := &rows[i]
		id, err := RowID(b, r)
		if err != nil {
			return &Mismatch{"row-corrupt", fmt.Sprintf("t=%s: %v", ts(r.T), err), r.T}
		}
		if i > 0 && r.T < prev {
			return &Mismatch{"order", fmt.Sprintf("row %d t=%s before previous %s", i, ts(r.T), ts(prev)), r.T}
		}
		prev = r.T
		w, ok := want[id]
		if !ok {
			return &Mismatch{"extra", fmt.Sprintf("record id %d at %s was never written", id, ts(r.T)), r.T}
		}
		seen[id]++
		if seen[id] > len(w) {
			return &Mismatch{"dup", fmt.Sprintf("record id %d returned %d times, written %d times", id, seen[id], len(w)), r.T}
		}
		okT := false
		for _, wt := range w {
			if VarTimeOK(wt, r.T, b.TFDur()) {
				okT = true
			}
		}
		if !okT {
			return &Mismatch{"time", fmt.Sprintf("record id %d returned at %s, written at %s (tf %s)", id, ts(r.T), ts(w[0]), b.TF), w[0]}
		}
	}
	for _, e := range exp {
		if w := want[e.ID]; seen[e.ID] < len(w) {
			return &Mismatch{"missing", fmt.Sprintf("record id %d written at %s returned %d times, written %d times", e.ID, ts(w[0]), seen[e.ID], len(w)), w[0]}
		}
	}
	return nil
}

func ts(t int64) string {
	return time.Unix(0, t).UTC().Format("2006-01-02T15:04:05.000000000")
}
