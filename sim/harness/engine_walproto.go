package harness

import (
	"encoding/binary"
	"fmt"
	"sort"
	"strings"
	"time"

	"github.com/alpacahq/marketstore/v4/zzverif/simos"
	"github.com/alpacahq/marketstore/v4/zzverif/simrt"
)

// ---------------------------------------------------------------------------
// C05: the WAL protocol under interleavings of its events (timer flush,
// requested flush, checkpoint, truncation, shutdown) and crashes.
//   1. a concurrent history with long virtual time runs under the seeded
//      scheduler (SCHED);
//   2. the recorded operation log is checked against the protocol of
//      docs/design/durable_writes_design.txt (trace conformance);
//   3. sampled crash points of that log (kill and power loss) are recovered
//      and every acknowledged write must be visible, in commit order.
// ---------------------------------------------------------------------------

// walEvent is a WAL-relevant event decoded from the operation log.
type walEvent struct {
	i    int
	kind string // prep commit ckprep ckdone tgdata fsync syncfs primary truncate status
	tgid int64
}

func decodeWalEvents(log []*simos.Op) []walEvent {
	var out []walEvent
	for i, op := range log {
		isWAL := strings.HasSuffix(op.Path, ".walfile")
		switch {
		case op.Kind == simos.OpWrite && isWAL && len(op.Data) == 11 && op.Data[0] == 1:
			tg := int64(binary.LittleEndian.Uint64(op.Data[1:]))
			dest, st := op.Data[9], op.Data[10]
			k := ""
			switch {
			case dest == 0 && st == 0:
				k = "prep"
			case dest == 0 && st == 2:
				k = "commit"
			case dest == 1 && st == 0:
				k = "ckprep"
			case dest == 1 && st == 2:
				k = "ckdone"
			default:
				k = "txninfo?"
			}
			out = append(out, walEvent{i, k, tg})
		case op.Kind == simos.OpWrite && isWAL && len(op.Data) == 11 && op.Data[0] == 2 && op.Off == 0:
			out = append(out, walEvent{i, "status", 0})
		case op.Kind == simos.OpWrite && isWAL && len(op.Data) == 1 && op.Data[0] == 0:
			out = append(out, walEvent{i, "tgdata", 0})
		case op.Kind == simos.OpWrite && isWAL && len(op.Data) >= 16 && strings.Contains(op.Site, "FlushCommandsToWAL") && len(out) > 0 && out[len(out)-1].kind == "tgdata" && out[len(out)-1].tgid == 0 && len(op.Data) != 16:
			out[len(out)-1].tgid = int64(binary.LittleEndian.Uint64(op.Data))
		case op.Kind == simos.OpSync && isWAL:
			out = append(out, walEvent{i, "fsync", 0})
		case op.Kind == simos.OpSyncFS:
			out = append(out, walEvent{i, "syncfs", 0})
		case op.Kind == simos.OpTruncate && isWAL:
			out = append(out, walEvent{i, "truncate", op.Size})
		case op.Kind == simos.OpWrite && strings.HasSuffix(op.Path, ".bin") && strings.Contains(op.Site, "WriteBufferToFile"):
			out = append(out, walEvent{i, "primary", 0})
		}
	}
	return out
}

// protocolViolations runs the state machine of the documented protocol.
func protocolViolations(ev []walEvent) []string {
	var out []string
	lastPrep := int64(-1)
	var pendingTG int64 = -1 // TG whose data is written but not yet committed+fsynced
	commitSeen := false
	fsynced := true
	ckState := 0 // 0 idle, 1 prep written, 2 syncfs done
	var ckTG int64
	tgSinceCk := false
	lastCkDone := false
	for _, e := range ev {
		switch e.kind {
		case "prep":
			lastPrep = e.tgid
			lastCkDone = false
		case "tgdata":
			if lastPrep != e.tgid {
				out = append(out, fmt.Sprintf("tgdata-without-prepare: TGDATA(%d) at op %d does not follow PREPARING(%d)", e.tgid, e.i, e.tgid))
			}
			pendingTG, commitSeen, fsynced = e.tgid, false, false
			tgSinceCk = true
			lastCkDone = false
		case "commit":
			if pendingTG != e.tgid {
				out = append(out, fmt.Sprintf("commit-without-data: COMMITCOMPLETE(%d) at op %d without its TGDATA", e.tgid, e.i))
			}
			commitSeen = true
		case "fsync":
			if pendingTG >= 0 && commitSeen {
				fsynced = true
			}
		case "primary":
			if pendingTG >= 0 && !(commitSeen && fsynced) {
				out = append(out, fmt.Sprintf("primary-before-wal-sync: primary write at op %d while TG %d is not yet committed and fsynced in the WAL", e.i, pendingTG))
			}
			if ckState == 2 {
				out = append(out, fmt.Sprintf("primary-inside-checkpoint: primary write at op %d between the checkpoint's global sync and its COMMITCOMPLETE record", e.i))
			}
			lastCkDone = false
		case "ckprep":
			ckState, ckTG = 1, e.tgid
		case "syncfs":
			if ckState == 1 {
				ckState = 2
			}
		case "ckdone":
			if ckState != 2 || ckTG != e.tgid {
				out = append(out, fmt.Sprintf("checkpoint-without-sync: CHECKPOINT COMMITCOMPLETE(%d) at op %d is not preceded by PREPARING and a global sync", e.tgid, e.i))
			}
			ckState = 0
			tgSinceCk = false
			lastCkDone = true
		case "truncate":
			// (a checkpoint with nothing to do writes no records: truncating is then safe)
			_ = lastCkDone
			if e.tgid == 0 && tgSinceCk {
				out = append(out, fmt.Sprintf("truncate-unchecked: WAL truncated at op %d although transactions were logged since the last completed checkpoint", e.i))
			}
		}
	}
	return out
}

// creationLost: is the (unlogged, un-synced) creation of the record's year file
// among the operations a power loss at k drops? (C04's known finding; the
// WAL protocol itself is not at fault then)
func creationLost(log []*simos.Op, synced []int, k int, mode, key string, t int64) bool {
	if !strings.HasPrefix(mode, "power") {
		return false
	}
	path := fmt.Sprintf("%s/%s/%d.bin", dataRoot, key, time.Unix(0, t).UTC().Year())
	for i := 0; i < k && i < len(log); i++ {
		op := log[i]
		if op.Path == path && op.DataOp() && synced[i] >= k &&
			(strings.Contains(op.Site, "WriteHeader") || strings.Contains(op.Site, "newTimeBucketInfoFromTemplate")) {
			return true
		}
	}
	return false
}

func c05Cause(log []*simos.Op, synced []int, k int, mode, key string, t int64, phase string) string {
	if creationLost(log, synced, k, mode, key, t) {
		return "file-creation-not-durable"
	}
	return phase
}

func c05Engine() *Engine {
	return &Engine{Name: "SCHED+CRASH", Run: func(seed uint64, tier string, res *Result) {
		r := simrt.NewRand(seed ^ 0x0505)
		w := schedWorkload(seed, tier, 45)
		w.Node.WALRotateInterval = 1 + r.Intn(3)
		c := schedCfg{writers: 1 + r.Intn(3), readers: 0, opsPerClient: 3 + r.Intn(6),
			think:    []time.Duration{400 * time.Millisecond, 3 * time.Second, 3 * time.Minute, 6 * time.Minute}[r.Intn(4)],
			shutdown: r.Pct(30), tail: []time.Duration{time.Second, 6 * time.Minute, 16 * time.Minute}[r.Intn(3)]}
		// some requests are timed to land on the 5-minute checkpoint/rotation tick
		// itself, so that they are in flight while the checkpoint and the
		// truncation run
		c.alignPct, c.alignTo = []int{0, 25, 50}[r.Intn(3)], 5*time.Minute
		if tier == "thorough" {
			c.opsPerClient += 8
		}
		sr := runSched(w, c, seed)
		res.Runs++
		res.SimSeconds += sr.sim.VirtualElapsed().Seconds()
		for k, v := range sr.probes {
			res.Count(k, v)
		}
		if schedPanics(sr, res, "C05", seed) {
			return
		}
		ev := decodeWalEvents(sr.log)
		curLog = sr.log
		nck, ntr, ntg := 0, 0, 0
		for _, e := range ev {
			switch e.kind {
			case "ckdone":
				nck++
			case "truncate":
				ntr++
			case "tgdata":
				ntg++
			}
		}
		res.Count("checkpoints", int64(nck))
		res.Count("wal-truncations", int64(ntr))
		res.Count("transaction-groups", int64(ntg))
		res.AddDistinct(fmt.Sprintf("%x/tg%d/ck%d/tr%d/shut=%v", sr.sim.Sched, ntg, nck, ntr, c.shutdown))
		for _, s := range protocolViolations(ev) {
			cls := strings.SplitN(s, ":", 2)[0]
			res.AddViolation(&Violation{Prop: "C05", Class: cls, Sig: "C05|protocol|" + cls, Seed: seed, Detail: "the recorded WAL event trace leaves the documented protocol: " + s,
				Replay: map[string]interface{}{"engine": "walproto", "history": describeHistory(sr)}})
		}
		// crash points: every event boundary of the protocol plus a sample
		if sr.base == nil {
			return
		}
		cand := map[int]bool{}
		for _, e := range ev {
			cand[e.i] = true
			cand[e.i+1] = true
		}
		var ks []int
		for k := range cand {
			if k >= 0 && k <= len(sr.log) {
				ks = append(ks, k)
			}
		}
		sort.Ints(ks)
		maxK := 40
		if tier == "thorough" {
			maxK = 400
		}
		for len(ks) > maxK {
			i := r.Intn(len(ks))
			ks = append(ks[:i], ks[i+1:]...)
		}
		synced := simos.SyncedBy(sr.log)
		bs := append([]*Bucket{}, w.Buckets...)
		for _, k := range ks {
			for _, mode := range []string{"kill", "power:none-kept", "power:wal-only"} {
				img := sr.base.Clone()
				for i := 0; i < k; i++ {
					o := sr.log[i]
					if !o.Mutating() {
						continue
					}
					if o.DataOp() && synced[i] >= k {
						if mode == "power:none-kept" {
							continue
						}
						if mode == "power:wal-only" && !strings.HasSuffix(o.Path, ".walfile") {
							continue
						}
					}
					img.Apply(o)
				}
				at := int64(0)
				if k > 0 {
					at = sr.log[k-1].Time
				}
				rc := recoverOn(img, w, bs, seed+uint64(k), at, nil)
				res.Evals++
				res.Count("recoveries-"+imgKindClass(mode), 1)
				if rc.Start != nil || rc.SimErr != nil {
					res.Count("restart-failed(C03's subject)", 1)
					continue
				}
				obs := map[string]*observed{}
				for _, b := range bs {
					if rc.QErr[b.Key()] == nil {
						obs[b.Key()] = observe(b, rc.Rows[b.Key()])
					}
				}
				win := window(sr.log, k)
				// every write acknowledged before k is visible, the later commit wins
				for _, op := range sr.ops {
					if op.kind != "write" || !op.ok || op.ack >= k {
						continue
					}
					bad := false
					for _, wr := range op.w {
						for _, e := range reqEffects(wr) {
							o := obs[e.key]
							if o == nil {
								continue
							}
							if e.b.Variable {
								if o.varCnt[e.id] == 0 {
									res.AddViolation(&Violation{Prop: "C05", Class: "commit-lost", Sig: "C05|commit-lost|variable|" + imgKindClass(mode) + "|" + c05Cause(sr.log, synced, k, mode, e.key, e.T, walPhase(ev, k)), Seed: seed,
										Detail: fmt.Sprintf("record id %d of %s was acknowledged at log position %d; after a crash at %d (%s, window %s) and recovery it is missing", e.id, e.key, op.ack, k, mode, win),
										Replay: map[string]interface{}{"engine": "walproto", "k": k, "image": mode, "history": describeHistory(sr)}})
									bad = true
								}
							} else {
								got, have := o.fixed[e.T]
								if !have || (got != e.id && writeEntirelyBefore(sr, e.key, e.T, got, op)) {
									res.AddViolation(&Violation{Prop: "C05", Class: "commit-lost", Sig: "C05|commit-lost|fixed|" + imgKindClass(mode) + "|" + c05Cause(sr.log, synced, k, mode, e.key, e.T, walPhase(ev, k)), Seed: seed,
										Detail: fmt.Sprintf("id %d of %s %s was acknowledged at log position %d; after a crash at %d (%s, window %s) recovery leaves id %d (present=%v): the commit is lost or an older commit won", e.id, e.key, ts(e.T), op.ack, k, mode, win, got, have),
										Replay: map[string]interface{}{"engine": "walproto", "k": k, "image": mode, "history": describeHistory(sr)}})
									bad = true
								}
							}
							if bad {
								break
							}
						}
						if bad {
							break
						}
					}
					if bad {
						break
					}
				}
				// nothing that was not issued before k
				for _, b := range bs {
					o := obs[b.Key()]
					if o == nil {
						continue
					}
					issued := map[int64]bool{}
					for _, op := range sr.ops {
						if op.kind == "write" && op.issue < k {
							for _, wr := range op.w {
								for _, p := range wr.Parts {
									if p.B == b {
										for _, rcd := range p.Recs {
											issued[rcd.ID] = true
										}
									}
								}
							}
						}
					}
					for id := range o.varCnt {
						if !issued[id] {
							res.AddViolation(&Violation{Prop: "C05", Class: "phantom", Sig: "C05|phantom|variable", Seed: seed, Detail: fmt.Sprintf("record id %d of %s visible after crash at %d was not issued before it", id, b.Key(), k)})
						}
					}
					for _, id := range o.fixed {
						if !issued[id] {
							res.AddViolation(&Violation{Prop: "C05", Class: "phantom", Sig: "C05|phantom|fixed", Seed: seed, Detail: fmt.Sprintf("id %d of %s visible after crash at %d was not issued before it", id, b.Key(), k)})
						}
					}
				}
			}
		}
		res.Sample(map[string]interface{}{"seed": seed, "transaction_groups": ntg, "checkpoints": nck, "truncations": ntr, "crash_points": len(ks), "history": describeHistory(sr)})
	}}
}

var curLog []*simos.Op

// walPhase names the protocol phase the crash point k falls into.
func walPhase(ev []walEvent, k int) string {
	if curLog != nil && k > 0 && k < len(curLog) {
		p, n := curLog[k-1], curLog[k]
		if p.Kind == simos.OpWrite && n.Kind == simos.OpWrite && strings.Contains(p.Site, "WriteBufferToFileIndirect") &&
			strings.Contains(n.Site, "WriteBufferToFileIndirect") && len(n.Data) == 24 && p.Ino == n.Ino {
			return "between-indirect-data-and-index-write"
		}
	}
	last := "start"
	for _, e := range ev {
		if e.i >= k {
			break
		}
		last = e.kind
	}
	return "after-" + last
}

func init() {
	Engines["C05"] = c05Engine()
}
