package harness

import (
	"github.com/alpacahq/marketstore/v4/zzverif/simos"
	"strings"
	"fmt"
	"sort"
	"time"

	"github.com/alpacahq/marketstore/v4/zzverif/simrt"
)

// ---------------------------------------------------------------------------
// C35: restart after a graceful shutdown preserves query results. Writers and
// the background WAL writer are active; Shutdown() is requested at a
// tape-chosen moment (mid-flush, with flush requests queued, around a
// checkpoint); every bucket is read after Shutdown returned and again after a
// restart on the same disk.
// ---------------------------------------------------------------------------

func c35Engine() *Engine {
	return &Engine{Name: "SCHED", Run: func(seed uint64, tier string, res *Result) {
		r := simrt.NewRand(seed ^ 0x3535)
		w := schedWorkload(seed, tier, 50)
		bg := r.Pct(75)
		w.Node.BackgroundSync = bg
		// no stalled tasks here: requests that overlap Shutdown for long open a
		// whole family of symptoms of one known defect (Shutdown does not keep
		// requests out; haveWALWriter) that this check could only list, not decide
		w.Sim.SlowPermille = 0
		if !bg {
			// without the background writer flushes run in the caller: one writer
			// (concurrent inline flushes are C17/C18's known deadlock)
			w.Sim.PreemptPct = 0
		}
		c := schedCfg{writers: 1 + r.Intn(3), readers: r.Intn(2), opsPerClient: 2 + r.Intn(6), shutdown: true,
			think: []time.Duration{0, 300 * time.Millisecond, 2 * time.Second, 4 * time.Minute}[r.Intn(4)]}
		if !bg {
			c.writers, c.readers = 1, 0
		} else if r.Pct(60) {
			c.shutAtYield = 1 + r.Intn([]int{40, 300, 1500, 6000}[r.Intn(4)])
		}
		if tier == "thorough" {
			c.opsPerClient += 6
		}
		sr := runSched(w, c, seed)
		res.Runs++
		res.SimSeconds += sr.sim.VirtualElapsed().Seconds()
		for k, v := range sr.probes {
			res.Count(k, v)
		}
		mode := "bgsync"
		if !bg {
			mode = "no-bgsync"
		}
		res.AddDistinct(fmt.Sprintf("%s/%x/%d/%d", mode, sr.sim.Sched, sr.sim.Preempt, len(sr.ops)))
		// Did a client request write to the WAL itself after Shutdown had been
		// requested? The WAL writer announces its exit through the unsynchronised
		// haveWALWriter before its last flush; a request still in flight then flushes
		// inline, concurrently with the writer's final flush and checkpoint and with
		// other such requests. Everything that goes wrong in such a run (interleaved
		// WAL records, transactions no checkpoint covers, Shutdown waiting for ever
		// on commands nobody will flush, sends on the closed trigger channel) has
		// that one known cause, so the run carries a tag.
		inlineTag := ""
		{
			reqAt := -1
			for i, o := range sr.log {
				if o.Kind == simos.OpMarker && o.Note == "shutdown-requested" {
					reqAt = i
				}
			}
			if reqAt >= 0 && bg {
				for _, e := range decodeWalEvents(sr.log) {
					if e.i > reqAt && strings.HasPrefix(sr.sim.TaskName(sr.log[e.i].Task), "client") {
						inlineTag = "|request-flushed-inline-during-shutdown"
						break
					}
				}
			}
		}
		if bg && sr.inlineFlush {
			// ... or took the inline path with nothing left to flush: even then it
			// bumps the transaction id in the middle of the writer's final flush
			inlineTag = "|request-flushed-inline-during-shutdown"
		}
		if bg && inlineTag == "" {
			// ... or died trying: the inline flush of a request panics when it finds
			// the WAL status unreadable under the writer's concurrent final flush
			// (shared file offset)
			for _, op := range sr.ops {
				if ae, ok := op.err.(*APIError); ok && ae.Panic && op.kind == "write" && strings.Contains(ae.Stack, "FlushToWAL") && strings.Contains(ae.Stack, "RequestFlush") {
					inlineTag = "|request-flushed-inline-during-shutdown"
				}
			}
		}
		if inlineTag != "" {
			res.Count("runs-with-inline-flush-during-shutdown", 1)
		}
		mk := func(class, sig, detail string) {
			sig += inlineTag
			res.AddViolation(&Violation{Prop: "C35", Class: class, Sig: "C35|" + mode + "|" + sig, Detail: detail, Seed: seed,
				Replay: map[string]interface{}{"engine": "sched-shutdown", "history": describeHistory(sr)}})
		}
		if sr.startErr != nil {
			res.Harness("seed %d: start failed: %v", seed, sr.startErr.Panic)
			return
		}
		for _, p := range sr.sim.Panics {
			mk("task-panic", "task-panic|"+normMsg(fmt.Sprint(p.Panic))+" ["+stackFrames(p.Stack, 1)+"]", fmt.Sprintf("task %s panicked during shutdown: %v [%s]", p.Name, firstLine(fmt.Sprint(p.Panic)), stackFrames(p.Stack, 3)))
		}
		if sr.shutErr != nil {
			mk("shutdown-panic", "shutdown-panic|"+normMsg(sr.shutErr.Error()), "Shutdown panicked: "+firstLine(sr.shutErr.Error()))
			return
		}
		if sr.sim.Err != nil {
			mk("shutdown-hang", "shutdown-hang|"+hangWho(sr.sim.Err.Error()), "the run did not complete (Shutdown did not return within the step cap, or deadlock): "+sr.sim.Err.Error())
			return
		}
		if sr.finalPre == nil || len(sr.sim.Panics) > 0 {
			return
		}
		res.Count("stuck-clients-after-shutdown", int64(sr.stuckClients))
		// restart on the same disk
		bs := append([]*Bucket{}, w.Buckets...)
		sort.Slice(bs, func(i, j int) bool { return bs[i].Key() < bs[j].Key() })
		at := int64(0)
		if n := len(sr.log); n > 0 {
			at = sr.log[n-1].Time
		}
		rc := recoverOn(sr.fs.Clone(), w, bs, seed+99, at, nil)
		res.Evals++
		if rc.Start != nil {
			msg := fmt.Sprint(rc.Start.Panic)
			mk("restart-failed", "restart-failed|"+cause(msg, rc.Start.Stack), "restart after graceful shutdown fails: "+firstLine(msg))
			return
		}
		if replayWork(rc.Log) {
			res.Count("restart-replayed-wal", 1)
		}
		// which task logged a transaction group that no completed checkpoint covers?
		// (what the restart will replay, i.e. re-append for variable records)
		unchecked := "none-unchecked"
		{
			evs := decodeWalEvents(sr.log)
			lastCk := -1
			ckTG := int64(-1)
			for i, e := range evs {
				if e.kind == "ckdone" {
					lastCk = i
					ckTG = e.tgid
				}
			}
			// a transaction group is covered by the last completed checkpoint iff its
			// id is not above the checkpoint's (position in the file does not matter:
			// a checkpoint records the last committed id it saw when it began)
			who := map[string]bool{}
			for _, e := range evs {
				if e.kind == "tgdata" && (lastCk < 0 || e.tgid > ckTG) {
					if strings.HasPrefix(sr.sim.TaskName(sr.log[e.i].Task), "client") {
						who["request"] = true
					} else {
						who["wal-writer"] = true
					}
				}
			}
			switch {
			case lastCk < 0 && len(who) > 0 && !bg:
				unchecked = "no-checkpoint-at-all"
			case who["request"] && who["wal-writer"]:
				unchecked = "unchecked-tg-by-request+wal-writer"
			case who["request"]:
				unchecked = "unchecked-tg-by-request"
			case who["wal-writer"]:
				unchecked = "unchecked-tg-by-wal-writer"
			}
		}
		if verboseLog {
			for _, e := range decodeWalEvents(sr.log) {
				o := sr.log[e.i]
				fmt.Printf("  EV %4d %-9s tg=%d task=%s t=%dms %s\n", e.i, e.kind, e.tgid%1000, sr.sim.TaskName(o.Task), (o.Time-sr.log[0].Time)/1e6, strings.TrimPrefix(o.Path, dataRoot))
			}
			for _, o := range sr.log {
				if o.Kind == simos.OpMarker {
					fmt.Printf("  MARK %4d %s t=%dms\n", o.Seq, o.Note, (o.Time-sr.log[0].Time)/1e6)
				}
			}
			fmt.Printf("  C35 seed=%d mode=%s stuck=%d unchecked=%s replayWork=%v\n", seed, mode, sr.stuckClients, unchecked, replayWork(rc.Log))
		}
		// (1) same result for every query before and after. A write request that had
		// not returned when the final queries began (it is killed by the process
		// exit at an arbitrary point, nobody was told it succeeded) may leave its
		// bucket in any in-between state: such buckets are judged by (2) only.
		// That only applies to a request that still touched the disk after the final
		// queries had begun; one that is parked for good (e.g. waiting for a flush
		// acknowledgement that the stopped WAL writer will never send) changed nothing
		// between the final queries and the exit, so its bucket is compared as well.
		activeAfter := map[string]bool{}
		for i := sr.finalStart; i >= 0 && i < len(sr.log); i++ {
			if o := sr.log[i]; o.Kind != simos.OpMarker {
				activeAfter[sr.sim.TaskName(o.Task)] = true
			}
		}
		inflight := map[string]bool{}
		for _, op := range sr.ops {
			if op.kind == "write" && (op.ack == 0 || op.ack > sr.finalStart) {
				if !activeAfter[fmt.Sprintf("client%d", op.client)] {
					res.Count("parked-request-at-exit-bucket-compared", 1)
					continue
				}
				for _, wr := range op.w {
					for _, p := range wr.Parts {
						inflight[p.B.Key()] = true
					}
				}
			}
		}
		for _, b := range bs {
			key := b.Key()
			if inflight[key] {
				res.Count("buckets-with-request-in-flight-at-exit", 1)
				continue
			}
			if sr.finalErr[key] != nil || rc.QErr[key] != nil {
				if (sr.finalErr[key] == nil) != (rc.QErr[key] == nil) {
					mk("query-differs", "query-differs|error|"+kindOf(b), fmt.Sprintf("bucket %s: before restart err=%v, after restart err=%v", key, sr.finalErr[key], rc.QErr[key]))
				}
				continue
			}
			if i, same := rowsEqual(sr.finalPre[key], rc.Rows[key]); !same {
				cls := "rows"
				if len(rc.Rows[key]) > len(sr.finalPre[key]) {
					cls = "more-rows-after-restart"
				} else if len(rc.Rows[key]) < len(sr.finalPre[key]) {
					cls = "fewer-rows-after-restart"
				}
				mk("query-differs", "query-differs|"+cls+"|"+kindOf(b)+"|"+unchecked,
					fmt.Sprintf("bucket %s returns %s just before the shutdown completed and %s after the restart (first difference at row %d)", key, descRows(sr.finalPre[key]), descRows(rc.Rows[key]), i))
			}
		}
		// (2) every write acknowledged before Shutdown returned is present; no variable duplicate
		for _, op := range sr.ops {
			if op.kind != "write" || !op.ok || op.ack > sr.shutAt {
				continue
			}
			for _, wr := range op.w {
				for _, e := range reqEffects(wr) {
					if rc.QErr[e.key] != nil {
						continue
					}
					o := observe(e.b, rc.Rows[e.key])
					if e.b.Variable {
						if o.varCnt[e.id] == 0 {
							mk("acked-lost", "acked-lost|variable", fmt.Sprintf("record id %d of %s was acknowledged before Shutdown returned and is missing after the restart", e.id, e.key))
							return
						}
						if o.varCnt[e.id] > 1 {
							mk("dup-after-restart", "dup-after-restart|variable|"+unchecked, fmt.Sprintf("record id %d of %s is returned %d times after the restart (WAL at shutdown: %s)", e.id, e.key, o.varCnt[e.id], unchecked))
							return
						}
					} else {
						got, have := o.fixed[e.T]
						if !have || (got != e.id && writeEntirelyBefore(sr, e.key, e.T, got, op)) {
							mk("acked-lost", "acked-lost|fixed", fmt.Sprintf("id %d of %s %s was acknowledged before Shutdown returned; after the restart the interval holds %d (present=%v)", e.id, e.key, ts(e.T), got, have))
							return
						}
					}
				}
			}
		}
		res.Sample(map[string]interface{}{"seed": seed, "mode": mode, "history": describeHistory(sr)})
	}}
}

func init() {
	Engines["C35"] = c35Engine()
}
