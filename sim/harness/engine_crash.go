package harness

import (
	"fmt"
	"os"
	"sort"
	"strings"
	"time"

	"github.com/alpacahq/marketstore/v4/zzverif/simos"
	"github.com/alpacahq/marketstore/v4/zzverif/simrt"
)

// ---------------------------------------------------------------------------
// CRASH engine: record one lifetime of the real server on the simulated disk,
// then enumerate every post-crash image (every prefix of the mutating
// operations; for power loss also drop/tear sets of un-synced data), run the
// real startup recovery on each image and evaluate the oracles.
// ---------------------------------------------------------------------------

const dataRoot = "/data"

type opMark struct {
	issue, ack int // log sequence numbers of the issue / ack markers (-1: not reached)
	ok         bool
}

// lifetime is the record of one server lifetime.
type lifetime struct {
	base        *simos.FS // disk at start
	log         []*simos.Op
	marks       []opMark // per workload op index
	from        int      // first workload op index of this lifetime
	to          int      // one past the last op executed
	sim         *simrt.Sim
	start       *StartError
	writeErrs   []string
	taint       map[string]string // bucket -> why its live (uncrashed) content already disagrees with the model
	wantFinal   bool
	finalRows   map[string][]OutRow
	finalErr    map[string]error
	finalLogLen int
}

// timeAt returns the virtual time of crash point k.
func (lt *lifetime) timeAt(k int) int64 {
	if k > 0 && k <= len(lt.log) {
		return lt.log[k-1].Time
	}
	if len(lt.log) > 0 {
		return lt.log[0].Time
	}
	return 0
}

func applyKnobs(k map[string]int) {
	for _, n := range []string{"WriteChannelCommandDepth", "defaultReplicationStreamChannelSize", "defaultSenderChannelSize", "recordsPerRead"} {
		simrt.SetKnob(n, k[n])
	}
}

// runLifetime executes ops[from:] (up to the next "crash" op) on a node
// started on fs; the client is a single task so that "acknowledged" is
// unambiguous.
func runLifetime(fs *simos.FS, w *Workload, from int, startNanos int64, model *Model, taint map[string]string) *lifetime {
	lt := &lifetime{base: fs.Clone(), from: from, marks: make([]opMark, len(w.Ops)), taint: taint, wantFinal: lifetimeWantFinal}
	live := model.Clone()
	for i := range lt.marks {
		lt.marks[i] = opMark{-1, -1, false}
	}
	fs.Log = nil
	fs.Record = true
	simos.Cur = fs
	applyKnobs(w.Knobs)
	cfg := w.Sim
	cfg.Seed = w.Sim.Seed + uint64(from)*7919
	cfg.StartNanos = startNanos
	lt.to = from
	lt.sim = simrt.Run(cfg, func() {
		n, err := StartNode(dataRoot, w.Node)
		if err != nil {
			lt.start = err.(*StartError)
			return
		}
		for i := from; i < len(w.Ops); i++ {
			op := w.Ops[i]
			if op.Kind == "crash" {
				break
			}
			lt.to = i + 1
			switch op.Kind {
			case "create":
				lt.marks[i].issue = fs.Marker(fmt.Sprintf("issue:%d", i))
				e := n.Create(op.B)
				if e == nil {
					live.Create(op.B)
				}
				lt.marks[i].ok = e == nil
				lt.marks[i].ack = fs.Marker(fmt.Sprintf("ack:%d:%v", i, e == nil))
			case "write":
				lt.marks[i].issue = fs.Marker(fmt.Sprintf("issue:%d", i))
				e := n.Write(op.W...)
				if e != nil {
					lt.writeErrs = append(lt.writeErrs, fmt.Sprintf("op %d: %v", i, e))
				}
				lt.marks[i].ok = e == nil
				lt.marks[i].ack = fs.Marker(fmt.Sprintf("ack:%d:%v", i, e == nil))
				if e == nil {
					// fault-free reference: does the live server already disagree with
					// the model (C08/C09's domain)? Then the bucket is not a valid
					// subject for crash oracles.
					live.ApplyWrite(op.W...)
					for _, wr := range op.W {
						for _, p := range wr.Parts {
							key := p.B.Key()
							if _, t := lt.taint[key]; t {
								continue
							}
							rows, qe := n.Query(&QuerySpec{Dest: key})
							if qe != nil {
								lt.taint[key] = "live query error: " + firstLine(qe.Error())
							} else if mm := CompareAll(live.B[key], rows[key]); mm != nil {
								lt.taint[key] = "live mismatch: " + mm.Error()
							}
						}
					}
				}
			case "destroy":
				lt.marks[i].issue = fs.Marker(fmt.Sprintf("issue:%d", i))
				e := n.Destroy(op.Key)
				if e == nil {
					live.Destroy(op.Key)
				}
				lt.marks[i].ok = e == nil
				lt.marks[i].ack = fs.Marker(fmt.Sprintf("ack:%d:%v", i, e == nil))
			case "query":
				n.Query(op.Q)
			case "sleep":
				simrt.Sleep(op.D)
			case "syncfs":
				// an operator-level sync (e.g. buckets created long ago)
				simos.SyncFS()
			case "restart":
				lt.marks[i].issue = fs.Marker(fmt.Sprintf("issue:%d", i))
				if e := n.Shutdown(); e != nil {
					lt.writeErrs = append(lt.writeErrs, fmt.Sprintf("op %d: shutdown: %v", i, e))
					if dumpWorkload {
						fmt.Println("SHUTDOWN ERROR", e, e.(*StartError).Stack)
					}
				}
				simrt.AdvanceClock(time.Duration(1+i) * time.Millisecond)
				n2, err := StartNode(dataRoot, w.Node)
				if err != nil {
					lt.start = err.(*StartError)
					return
				}
				n = n2
				lt.marks[i].ok = true
				lt.marks[i].ack = fs.Marker(fmt.Sprintf("ack:%d:true", i))
				for key, mb := range live.B {
					if _, t := lt.taint[key]; t {
						continue
					}
					rows, qe := n.Query(&QuerySpec{Dest: key})
					if qe != nil {
						if len(mb.Fixed)+len(mb.Var) > 0 {
							lt.taint[key] = "after graceful restart: query error: " + firstLine(qe.Error())
						}
					} else if mm := CompareAll(mb, rows[key]); mm != nil {
						lt.taint[key] = "after graceful restart: " + mm.Error()
					}
				}
			}
		}
		if lt.wantFinal {
			// what the live (uncrashed) server returns at the end of the lifetime;
			// queries do not mutate the disk, so the log is unaffected
			lt.finalRows = map[string][]OutRow{}
			lt.finalErr = map[string]error{}
			lt.finalLogLen = len(fs.Log)
			for key := range live.B {
				rows, qe := n.Query(&QuerySpec{Dest: key})
				if qe != nil {
					lt.finalErr[key] = qe
				} else {
					lt.finalRows[key] = rows[key]
				}
			}
		}
	})
	lt.log = fs.Log
	fs.Log = nil
	fs.Record = false
	return lt
}

// recovered is what a restart on a crash image produced.
type recovered struct {
	Start  *StartError
	Rows   map[string][]OutRow
	QErr   map[string]error
	SimErr error
	Panics []string
	Log    []*simos.Op
	Infos  map[string]*Info
	IErr   map[string]error
	node   *Node
}

// recoverOn starts a fresh real node on img (startup replay) and reads every
// listed bucket over all time.
func recoverOn(img *simos.FS, w *Workload, buckets []*Bucket, seed uint64, at int64, then func(n *Node)) *recovered {
	rc := &recovered{Rows: map[string][]OutRow{}, QErr: map[string]error{}, Infos: map[string]*Info{}, IErr: map[string]error{}}
	img.Log = nil
	img.Record = true
	simos.Cur = img
	k := map[string]int{}
	for n, v := range w.Knobs {
		k[n] = v
	}
	if k["WriteChannelCommandDepth"] == 0 || k["WriteChannelCommandDepth"] > 4096 {
		k["WriteChannelCommandDepth"] = 4096 // recovery never queues commands; keeps restarts cheap
	}
	applyKnobs(k)
	cfg := simrt.Config{Seed: seed, PreemptPct: 0, ShuffleMap: w.Sim.ShuffleMap,
		StartNanos: at + int64(time.Second) + int64(seed%977)*1000, MaxSteps: 5_000_000}
	s := simrt.Run(cfg, func() {
		n, err := StartNode(dataRoot, w.Node)
		if err != nil {
			rc.Start = err.(*StartError)
			return
		}
		rc.node = n
		for _, b := range buckets {
			rows, err := n.Query(&QuerySpec{Dest: b.Key()})
			if err != nil {
				rc.QErr[b.Key()] = err
				continue
			}
			rc.Rows[b.Key()] = rows[b.Key()]
		}
		if then != nil {
			then(n)
		}
	})
	rc.SimErr = s.Err
	for _, p := range s.Panics {
		rc.Panics = append(rc.Panics, fmt.Sprintf("%s: %v", p.Name, p.Panic))
	}
	rc.Log = img.Log
	img.Record = false
	return rc
}

func opLabel(op *simos.Op) string {
	if op == nil {
		return "end"
	}
	s := op.Kind.String() + "@" + op.Site
	if op.Kind == simos.OpWrite && len(op.Data) <= 32 {
		s += fmt.Sprintf("/%d", len(op.Data))
	}
	if strings.HasSuffix(op.Path, ".walfile") {
		s += "[wal]"
	}
	return s
}

func window(log []*simos.Op, k int) string {
	var prev, next *simos.Op
	for i := k - 1; i >= 0; i-- {
		if log[i].Mutating() {
			prev = log[i]
			break
		}
	}
	for i := k; i < len(log); i++ {
		if log[i].Mutating() {
			next = log[i]
			break
		}
	}
	return opLabel(prev) + " | " + opLabel(next)
}

// stackFrames extracts the innermost marketstore frames of a panic stack.
func stackFrames(stack string, n int) string {
	var out []string
	for _, l := range strings.Split(stack, "\n") {
		if strings.HasPrefix(l, "github.com/alpacahq/marketstore/v4/") && !strings.Contains(l, "/zzverif/") {
			f := strings.TrimPrefix(l, "github.com/alpacahq/marketstore/v4/")
			if i := strings.LastIndex(f, "("); i > 0 {
				f = f[:i]
			}
			out = append(out, f)
			if len(out) >= n {
				break
			}
		}
	}
	return strings.Join(out, " < ")
}

// cause builds the stable part of a failure signature: the tail of the
// normalised message plus the innermost marketstore frame.
func cause(msg, stack string) string {
	m := normMsg(msg)
	if i := strings.LastIndex(m, "size=N:"); i >= 0 {
		m = m[i+7:]
	}
	if len(m) > 70 {
		m = m[len(m)-70:]
	}
	return m + " [" + stackFrames(stack, 1) + "]"
}

func firstLine(s string) string {
	if i := strings.IndexByte(s, '\n'); i >= 0 {
		s = s[:i]
	}
	if len(s) > 200 {
		s = s[:200]
	}
	return s
}

// normMsg strips numbers and paths so that messages can be part of signatures.
func normMsg(s string) string {
	s = firstLine(s)
	// bucket paths under the data root become <path> (keeps WAL file names, which
	// are handled by the digit folding below)
	for {
		i := strings.Index(s, dataRoot+"/")
		if i < 0 || strings.HasPrefix(s[i:], dataRoot+"/WALFile") {
			break
		}
		j := i
		for j < len(s) && s[j] != ' ' && s[j] != ':' && s[j] != ',' && s[j] != '"' {
			j++
		}
		s = s[:i] + "<path>" + s[j:]
	}
	var b strings.Builder
	lastDigit := false
	for _, c := range s {
		if c >= '0' && c <= '9' {
			if !lastDigit {
				b.WriteByte('N')
			}
			lastDigit = true
			continue
		}
		lastDigit = false
		b.WriteRune(c)
	}
	out := b.String()
	if len(out) > 400 {
		out = out[:400]
	}
	return out
}

// crashState is the incremental model while k sweeps the log.
type crashState struct {
	w          *Workload
	lt         *lifetime
	acked      *Model                    // all ops acknowledged before k
	exists     map[string]*Bucket        // buckets whose creation (explicit or by acked write) completed before k
	issued     map[string]map[int64]bool // bucket -> ids issued before k
	nextAck    int                       // next workload op index not yet acked
	nextIss    int
	lastSyncFS int                                 // log index of the last global sync before k (-1 none)
	failedEff  map[string]map[int64]map[int64]bool // bucket -> interval -> ids of writes that returned an ERROR before k (a request that fails as a whole may have applied some of its parts)
	destroyed  map[string]bool                     // keys whose destroy returned before k
	recreated  map[string]bool                     // ... and that were created again before k
	dropped    []*simos.Op                         // power-loss image under evaluation: dropped/torn ops
}

func newCrashState(w *Workload, lt *lifetime, m *Model, exists map[string]*Bucket) *crashState {
	cs := &crashState{w: w, lt: lt, acked: m.Clone(), exists: map[string]*Bucket{}, issued: map[string]map[int64]bool{},
		nextAck: lt.from, nextIss: lt.from, lastSyncFS: -1}
	for k, b := range exists {
		cs.exists[k] = b
	}
	for key, mb := range m.B {
		cs.issued[key] = map[int64]bool{}
		for _, id := range mb.Fixed {
			cs.issued[key][id] = true
		}
		for _, r := range mb.Var {
			cs.issued[key][r.ID] = true
		}
	}
	return cs
}

func (cs *crashState) markIssued(op *WOp) {
	for _, wr := range op.W {
		for _, p := range wr.Parts {
			m := cs.issued[p.B.Key()]
			if m == nil {
				m = map[int64]bool{}
				cs.issued[p.B.Key()] = m
			}
			for _, r := range p.Recs {
				m[r.ID] = true
			}
		}
	}
}

// advance moves the state to crash point k (image = log[0:k]).
func (cs *crashState) advance(k int) {
	for cs.nextIss < cs.lt.to {
		mk := cs.lt.marks[cs.nextIss]
		op := cs.w.Ops[cs.nextIss]
		if op.Kind != "write" && op.Kind != "create" && op.Kind != "restart" && op.Kind != "destroy" {
			cs.nextIss++
			continue
		}
		if mk.issue < 0 || mk.issue >= k {
			break
		}
		if op.Kind == "write" {
			cs.markIssued(op)
		}
		cs.nextIss++
	}
	for cs.nextAck < cs.lt.to {
		mk := cs.lt.marks[cs.nextAck]
		op := cs.w.Ops[cs.nextAck]
		if op.Kind != "write" && op.Kind != "create" && op.Kind != "restart" && op.Kind != "destroy" {
			cs.nextAck++
			continue
		}
		if op.Kind == "destroy" && mk.issue >= 0 && mk.issue < k {
			// from the moment a destroy is issued nothing is required of the bucket
			// any more (it may be half removed); what it held may still be seen until
			// the destroy has returned
			cs.acked.Destroy(op.Key)
			delete(cs.exists, op.Key)
		}
		if mk.ack < 0 || mk.ack >= k {
			break
		}
		if op.Kind == "destroy" && mk.ok {
			// destroyed: a bucket created later under the same key starts empty, rows
			// of the old incarnation in it would be phantoms
			cs.issued[op.Key] = map[int64]bool{}
			if cs.destroyed == nil {
				cs.destroyed, cs.recreated = map[string]bool{}, map[string]bool{}
			}
			cs.destroyed[op.Key] = true
		}
		if !mk.ok && op.Kind == "write" {
			if cs.failedEff == nil {
				cs.failedEff = map[string]map[int64]map[int64]bool{}
			}
			for _, wr := range op.W {
				for _, e := range reqEffects(wr) {
					if e.b.Variable {
						continue
					}
					if cs.failedEff[e.key] == nil {
						cs.failedEff[e.key] = map[int64]map[int64]bool{}
					}
					if cs.failedEff[e.key][e.T] == nil {
						cs.failedEff[e.key][e.T] = map[int64]bool{}
					}
					cs.failedEff[e.key][e.T][e.id] = true
				}
			}
		}
		if mk.ok {
			switch op.Kind {
			case "create":
				cs.acked.Create(op.B)
				cs.exists[op.B.Key()] = op.B
				if cs.destroyed[op.B.Key()] {
					cs.recreated[op.B.Key()] = true
				}
			case "write":
				cs.acked.ApplyWrite(op.W...)
				for _, wr := range op.W {
					for _, p := range wr.Parts {
						cs.exists[p.B.Key()] = p.B
					}
				}
			}
		}
		cs.nextAck++
	}
}

// createInFlight: a create request was issued but had not returned at k.
func (cs *crashState) createInFlight(k int) bool {
	for i := cs.lt.from; i < cs.lt.to; i++ {
		if cs.w.Ops[i].Kind != "create" {
			continue
		}
		mk := cs.lt.marks[i]
		if mk.issue >= 0 && mk.issue < k && (mk.ack < 0 || mk.ack >= k) {
			return true
		}
	}
	return false
}

// inflight returns the write op issued but not acknowledged at k (nil if none).
func (cs *crashState) inflight(k int) *WOp {
	i := cs.nextAck
	for i < cs.lt.to {
		op := cs.w.Ops[i]
		if op.Kind == "write" || op.Kind == "create" || op.Kind == "restart" || op.Kind == "destroy" {
			break
		}
		i++
	}
	if i >= cs.lt.to {
		return nil
	}
	mk := cs.lt.marks[i]
	if mk.issue >= 0 && mk.issue < k && (mk.ack < 0 || mk.ack >= k) && cs.w.Ops[i].Kind == "write" {
		return cs.w.Ops[i]
	}
	return nil
}

// bucketsToRead: every bucket that exists or may have been auto-created by the
// in-flight write.
func (cs *crashState) bucketsToRead(inf *WOp) []*Bucket {
	m := map[string]*Bucket{}
	for k, b := range cs.exists {
		m[k] = b
	}
	if inf != nil {
		for _, wr := range inf.W {
			for _, p := range wr.Parts {
				m[p.B.Key()] = p.B
			}
		}
	}
	keys := make([]string, 0, len(m))
	for k := range m {
		keys = append(keys, k)
	}
	sort.Strings(keys)
	out := make([]*Bucket, len(keys))
	for i, k := range keys {
		out[i] = m[k]
	}
	return out
}

// observed decodes result rows into id maps.
type observed struct {
	fixed  map[int64]int64 // T -> id
	varCnt map[int64]int   // id -> count
	bad    error
}

func observe(b *Bucket, rows []OutRow) *observed {
	o := &observed{fixed: map[int64]int64{}, varCnt: map[int64]int{}}
	for i := range rows {
		id, err := RowID(b, &rows[i])
		if err != nil {
			o.bad = fmt.Errorf("row at %s: %v", ts(rows[i].T), err)
			continue
		}
		if b.Variable {
			o.varCnt[id]++
		} else {
			o.fixed[rows[i].T] = id
		}
	}
	return o
}

// reqEffects lists the effects of one WriteRequest for atomicity checks.
type effect struct {
	key string
	b   *Bucket
	T   int64 // fixed: interval start
	id  int64
}

func reqEffects(wr *WriteReq) []effect {
	var out []effect
	for _, p := range wr.Parts {
		if p.B.Variable {
			for _, r := range p.Recs {
				out = append(out, effect{p.B.Key(), p.B, r.T, r.ID})
			}
			continue
		}
		last := map[int64]int64{}
		var order []int64
		for _, r := range p.Recs {
			t := IntervalStart(r.T, p.B.TFDur())
			if _, ok := last[t]; !ok {
				order = append(order, t)
			}
			last[t] = r.ID
		}
		for _, t := range order {
			out = append(out, effect{p.B.Key(), p.B, t, last[t]})
		}
	}
	return out
}

// CrashCheck evaluates the oracles of prop at crash point k given what
// recovery produced. It returns violations (unlisted or known — the caller
// sorts them) and whether the point could be evaluated.
func (cs *crashState) check(prop string, k int, imgKind string, rc *recovered, inf *WOp, seed uint64) (vs []*Violation, evaluated bool) {
	win := window(cs.lt.log, k)
	mk := func(class, sig, detail string) *Violation {
		rp := map[string]interface{}{"engine": "crash", "k": k, "image": imgKind, "window": win, "lifetime_from": cs.lt.from}
		if cs.dropped != nil {
			// the fault trace of a power-loss image: which un-synced operations were lost or torn
			var tr []string
			for i, op := range cs.dropped {
				if i >= 60 {
					tr = append(tr, fmt.Sprintf("… +%d more", len(cs.dropped)-60))
					break
				}
				tr = append(tr, fmt.Sprintf("#%d %s %s off=%d len=%d size=%d at %s", op.Seq, opKindName(op), strings.TrimPrefix(op.Path, dataRoot+"/"), op.Off, len(op.Data), op.Size, op.Site))
			}
			rp["lost_or_torn_ops"] = tr
		}
		if os.Getenv("VERIF_DUMP") != "" {
			synced := simos.SyncedBy(cs.lt.log)
			for i := 0; i < k && i < len(cs.lt.log); i++ {
				op := cs.lt.log[i]
				if !op.Mutating() && op.Kind != simos.OpSync && op.Kind != simos.OpSyncFS {
					continue
				}
				fmt.Printf("  op %3d seq=%d kind=%d %s off=%d len=%d size=%d syncedBy=%d site=%s\n", i, op.Seq, op.Kind, strings.TrimPrefix(op.Path, dataRoot+"/"), op.Off, len(op.Data), op.Size, synced[i], op.Site)
			}
		}
		return &Violation{Prop: prop, Class: class, Sig: prop + "|" + sig, Detail: detail, Seed: seed, Replay: rp}
	}
	restartFailed := rc.Start != nil || rc.SimErr != nil || len(rc.Panics) > 0
	if prop == "C03" && strings.HasPrefix(imgKind, "power") {
		if len(cs.dropped) == 0 {
			imgKind = "kill" // nothing was lost: the process-kill image
		} else {
			// power-loss images: the position of the crash says little, what was lost
			// says a lot - signatures carry the kind of un-synced data that was dropped
			win = cs.powerCause()
		}
	}
	if prop == "C03" {
		if rc.Start != nil {
			msg := fmt.Sprint(rc.Start.Panic)
			vs = append(vs, mk("restart-failed", "restart-failed|"+imgKindClass(imgKind)+"|"+cause(msg, rc.Start.Stack)+"|"+win,
				fmt.Sprintf("restart on image k=%d (%s) failed: %s [%s]; window %s", k, imgKind, firstLine(msg), stackFrames(rc.Start.Stack, 4), win)))
			return vs, true
		}
		if rc.SimErr != nil {
			vs = append(vs, mk("restart-hang", "restart-hang|"+imgKindClass(imgKind)+"|"+win, fmt.Sprintf("restart on image k=%d: %v", k, rc.SimErr)))
			return vs, true
		}
		for _, p := range rc.Panics {
			vs = append(vs, mk("restart-panic", "restart-panic|"+imgKindClass(imgKind)+"|"+normMsg(p)+"|"+win, fmt.Sprintf("background task panicked during restart at k=%d: %s", k, firstLine(p))))
		}
		keys := make([]string, 0, len(cs.exists))
		for key := range cs.exists {
			keys = append(keys, key)
		}
		sort.Strings(keys)
		for _, key := range keys {
			if e := rc.QErr[key]; e != nil {
				kind := "fixed"
				if cs.exists[key].Variable {
					kind = "variable"
				}
				vs = append(vs, mk("query-error", "query-error|"+imgKindClass(imgKind)+"|"+kind+"|"+normMsg(e.Error())+"|"+win,
					fmt.Sprintf("bucket %s existed before the crash at k=%d (%s) but its query fails after restart: %s; window %s", key, k, imgKind, firstLine(e.Error()), win)))
			}
		}
		return vs, true
	}
	if restartFailed {
		return nil, false // C03's business; unevaluated here
	}
	infEff := map[string]map[int64]int64{} // key -> T -> id (fixed) ; variable: id -> id
	infIDs := map[string]map[int64]bool{}
	if inf != nil {
		for _, wr := range inf.W {
			for _, e := range reqEffects(wr) {
				if infEff[e.key] == nil {
					infEff[e.key] = map[int64]int64{}
					infIDs[e.key] = map[int64]bool{}
				}
				if !e.b.Variable {
					infEff[e.key][e.T] = e.id
				}
				infIDs[e.key][e.id] = true
			}
		}
	}
	keys := make([]string, 0, len(cs.acked.B))
	for key := range cs.acked.B {
		keys = append(keys, key)
	}
	sort.Strings(keys)
	obs := map[string]*observed{}
	for _, b := range cs.bucketsToRead(inf) {
		if _, t := cs.lt.taint[b.Key()]; t {
			continue
		}
		if rc.QErr[b.Key()] == nil {
			obs[b.Key()] = observe(b, rc.Rows[b.Key()])
		}
	}
	switch prop {
	case "C01", "C04":
		for _, key := range keys {
			mb := cs.acked.B[key]
			o := obs[key]
			if _, t := cs.lt.taint[key]; t {
				continue
			}
			if o == nil {
				if len(mb.Fixed)+len(mb.Var) > 0 {
					return nil, false // query error: C03's business
				}
				continue
			}
			if !mb.B.Variable {
				ts2 := make([]int64, 0, len(mb.Fixed))
				for t := range mb.Fixed {
					ts2 = append(ts2, t)
				}
				sort.Slice(ts2, func(i, j int) bool { return ts2[i] < ts2[j] })
				for _, t := range ts2 {
					id := mb.Fixed[t]
					got, ok := o.fixed[t]
					if ok && got == id {
						continue
					}
					if iid, infl := infEff[key][t]; infl && ok && got == iid {
						continue
					}
					if ok && cs.failedEff[key][t][got] {
						continue // written by a request that was answered with an error: partly applied
					}
					d := fmt.Sprintf("bucket %s interval %s: acknowledged write id %d", key, ts(t), id)
					if ok {
						d += fmt.Sprintf(" but id %d is returned", got)
					} else {
						d += " but no row is returned"
					}
					vs = append(vs, mk("lost-fixed", "lost-fixed|"+imgKindClass(imgKind)+"|"+cs.lossFact(key, t)+"|"+win, d+fmt.Sprintf(" after crash at k=%d (%s), window %s", k, imgKind, win)))
					break
				}
			} else {
				for _, r := range mb.Var {
					if o.varCnt[r.ID] == 0 {
						vs = append(vs, mk("lost-variable", "lost-variable|"+imgKindClass(imgKind)+"|"+cs.lossFact(key, r.T)+"|"+win,
							fmt.Sprintf("bucket %s: acknowledged record id %d (%s) missing after crash at k=%d (%s), window %s", key, r.ID, ts(r.T), k, imgKind, win)))
						break
					}
				}
			}
		}
	case "C02":
		ckpt := cs.checkpointedBefore(k)
		for _, b := range cs.bucketsToRead(inf) {
			key := b.Key()
			o := obs[key]
			if o == nil {
				continue
			}
			// a bucket that was destroyed and created again: Destroy is not logged, so
			// recovery replays the old incarnation's un-checkpointed transactions into
			// the new files (one cause, whatever the crash window)
			pwin := win
			if cs.recreated[key] {
				pwin = "bucket-recreated-after-destroy"
			}
			if o.bad != nil {
				vs = append(vs, mk("row-corrupt", "row-corrupt|"+kindOf(b)+"|"+pwin, fmt.Sprintf("bucket %s after crash at k=%d: %v", key, k, o.bad)))
				continue
			}
			iss := cs.issued[key]
			if !b.Variable {
				tss := make([]int64, 0, len(o.fixed))
				for t := range o.fixed {
					tss = append(tss, t)
				}
				sort.Slice(tss, func(i, j int) bool { return tss[i] < tss[j] })
				for _, t := range tss {
					id := o.fixed[t]
					if !iss[id] {
						vs = append(vs, mk("phantom", "phantom|fixed|"+pwin, fmt.Sprintf("bucket %s holds id %d at %s which no issued write contains (crash k=%d)", key, id, ts(t), k)))
						break
					}
				}
			} else {
				mb := cs.acked.B[key]
				written := map[int64]int{}
				if mb != nil {
					for _, r := range mb.Var {
						written[r.ID]++
					}
				}
				ids := make([]int64, 0, len(o.varCnt))
				for id := range o.varCnt {
					ids = append(ids, id)
				}
				sort.Slice(ids, func(i, j int) bool { return ids[i] < ids[j] })
				for _, id := range ids {
					c := o.varCnt[id]
					if !iss[id] {
						vs = append(vs, mk("phantom", "phantom|variable|"+pwin, fmt.Sprintf("bucket %s returns record id %d which no issued write contains (crash k=%d)", key, id, k)))
						break
					}
					wcount := written[id]
					if infIDs[key][id] {
						wcount = 1
					}
					if c > wcount {
						facts := fmt.Sprintf("x%d", c/maxInt(wcount, 1))
						if ckpt[id] {
							facts += "|checkpointed"
						} else {
							facts += "|not-checkpointed"
						}
						if replayedVar(rc.Log) {
							facts += "|replay-appended"
						}
						vs = append(vs, mk("dup", "dup|variable|"+facts,
							fmt.Sprintf("bucket %s returns record id %d %d times, written %d time(s), after crash at k=%d (%s), window %s", key, id, c, wcount, k, imgKind, win)))
						break
					}
				}
			}
		}
		// atomicity of each in-flight request
		if inf != nil {
			for ri, wr := range inf.W {
				eff := reqEffects(wr)
				applied := 0
				evaluable := true
				for _, e := range eff {
					o := obs[e.key]
					if o == nil {
						evaluable = false
						break
					}
					if e.b.Variable {
						if o.varCnt[e.id] > 0 {
							applied++
						}
					} else if o.fixed[e.T] == e.id {
						applied++
					}
				}
				if evaluable && applied != 0 && applied != len(eff) {
					vs = append(vs, mk("partial-tg", "partial-tg|"+win,
						fmt.Sprintf("in-flight request %d: %d of %d effects visible after crash at k=%d (%s), window %s", ri, applied, len(eff), k, imgKind, win)))
				}
			}
		}
	}
	return vs, true
}

// powerCause names the most fundamental kind of un-synced data that the
// power-loss image under evaluation lost (dropped or torn).
func (cs *crashState) powerCause() string {
	cat, creation, primary, wal := false, false, false, false
	for _, op := range cs.dropped {
		switch {
		case strings.Contains(op.Site, "writeCategoryNameFile"):
			cat = true
		case strings.HasSuffix(op.Path, ".bin") && (strings.Contains(op.Site, "WriteHeader") || strings.Contains(op.Site, "newTimeBucketInfoFromTemplate")):
			creation = true
		case strings.HasSuffix(op.Path, ".bin"):
			primary = true
		case strings.HasSuffix(op.Path, ".walfile"):
			wal = true
		}
	}
	switch {
	case cat:
		return "category-name-file-not-durable"
	case creation:
		return "file-creation-not-durable"
	case primary:
		return "primary-data-not-durable"
	case wal:
		return "wal-data-not-durable"
	}
	return "nothing-lost"
}

// lossFact classifies a lost record on a power-loss image: was the (unlogged,
// un-synced) creation of its year file among the dropped operations?
func (cs *crashState) lossFact(key string, t int64) string {
	if cs.dropped == nil {
		return "all-writes-kept"
	}
	path := fmt.Sprintf("%s/%s/%d.bin", dataRoot, key, time.Unix(0, t).UTC().Year())
	for _, op := range cs.dropped {
		if op.Path == path && (strings.Contains(op.Site, "WriteHeader") || strings.Contains(op.Site, "newTimeBucketInfoFromTemplate")) {
			return "file-creation-not-durable"
		}
	}
	// a variable-length interval is extended in place: the data block is rewritten
	// (old and new records together), then the 24-byte index record is updated. If
	// the index update is lost while the rewritten data survives, the old index
	// record covers only the head of the new block.
	for _, op := range cs.dropped {
		if op.Path == path && op.Kind == simos.OpWrite && len(op.Data) == 24 && strings.Contains(op.Site, "WriteBufferToFileIndirect") {
			return "index-update-not-durable"
		}
	}
	return "data-not-durable"
}

func opKindName(op *simos.Op) string {
	switch op.Kind {
	case simos.OpWrite:
		return "write"
	case simos.OpTruncate:
		return "truncate"
	}
	return fmt.Sprintf("op%d", op.Kind)
}

func kindOf(b *Bucket) string {
	if b.Variable {
		return "variable"
	}
	return "fixed"
}

func imgKindClass(k string) string {
	if i := strings.IndexByte(k, ':'); i >= 0 {
		return k[:i]
	}
	return k
}

func minInt(a, b int) int {
	if a < b {
		return a
	}
	return b
}

func maxInt(a, b int) int {
	if a > b {
		return a
	}
	return b
}

// replayedVar tells whether recovery's own log contains an append to a
// variable-length file (replay re-applied a variable TG).
func replayedVar(log []*simos.Op) bool {
	for _, op := range log {
		if op.Kind == simos.OpWrite && strings.Contains(op.Site, "WriteBufferToFileIndirect") {
			return true
		}
	}
	return false
}

// checkpointedBefore returns the ids of variable records whose write was
// acknowledged before a checkpoint that completed before k (its global sync and
// the WAL record written after it both precede k).
func (cs *crashState) checkpointedBefore(k int) map[int64]bool {
	out := map[int64]bool{}
	log := cs.lt.log
	done := -1 // index of the sync of the last completed checkpoint
	lastSync := -1
	for i := 0; i < k && i < len(log); i++ {
		op := log[i]
		if op.Kind == simos.OpSyncFS && strings.Contains(op.Chain, "CreateCheckpoint") {
			lastSync = i
		} else if op.Kind == simos.OpWrite && lastSync >= 0 && strings.Contains(op.Chain, "CreateCheckpoint") {
			done = lastSync
			lastSync = -1
		}
	}
	if done < 0 {
		return out
	}
	for i := cs.lt.from; i < cs.lt.to; i++ {
		mk := cs.lt.marks[i]
		if cs.w.Ops[i].Kind == "write" && mk.ack >= 0 && mk.ack < done {
			for _, wr := range cs.w.Ops[i].W {
				for _, p := range wr.Parts {
					for _, r := range p.Recs {
						out[r.ID] = true
					}
				}
			}
		}
	}
	return out
}

// CrashParams selects what the CRASH engine enumerates.
type CrashParams struct {
	Prop       string
	Power      bool // power-loss images (drop / tear un-synced data)
	RandomSets int  // random drop sets with tears per k
	MaxK       int  // cap on crash points per lifetime (0 = all); stratified when exceeded
	Lifetimes  int
}

// RunCrashHistory runs one workload through the CRASH engine.
func RunCrashHistory(w *Workload, p CrashParams, res *Result) {
	fs := simos.New()
	fs.MkdirAll(dataRoot, 0o755)
	fs.GuardRoots = nil
	model := NewModel()
	exists := map[string]*Bucket{}
	from := 0
	rng := simrt.NewRand(w.Seed ^ 0x5151)
	var startNanos int64
	taint := map[string]string{}
	res.Runs++
	if dumpWorkload {
		simrt.DebugStacks = true
		for i, l := range w.Describe() {
			fmt.Println(i-1, l)
		}
	}
	for life := 0; life < maxInt(p.Lifetimes, 1) && from < len(w.Ops); life++ {
		lt := runLifetime(fs, w, from, startNanos, model, taint)
		res.SimSeconds += lt.sim.VirtualElapsed().Seconds()
		res.Count("lifetimes", 1)
		res.Count("lifetime-steps", int64(lt.sim.Steps))
		if lt.start != nil {
			// a clean (re)start failed: that is C03's domain at a graceful point
			if p.Prop == "C03" {
				res.AddViolation(&Violation{Prop: "C03", Class: "restart-failed", Sig: "C03|restart-failed|graceful|" + normMsg(fmt.Sprint(lt.start.Panic)),
					Detail: "start/restart failed without a crash: " + firstLine(fmt.Sprint(lt.start.Panic)), Seed: w.Seed})
			} else {
				res.Count("lifetime-start-failed", 1)
			}
			return
		}
		if lt.sim.Err != nil {
			if dumpWorkload {
				fmt.Println(lt.sim.DeadlockStacks)
			}
			res.Harness("seed %d lifetime %d: %v", w.Seed, life, lt.sim.Err)
			return
		}
		for _, pn := range lt.sim.Panics {
			res.Count("lifetime-task-panic", 1)
			res.Harness("seed %d lifetime %d: task %s panicked: %v", w.Seed, life, pn.Name, pn.Panic)
		}
		res.Counters["tainted-buckets"] = int64(len(taint))
		for _, why := range taint {
			res.Count("taint: "+normMsg(why)[:minInt(len(normMsg(why)), 40)], 1)
		}
		for i := lt.from; i < lt.to; i++ {
			if w.Ops[i].Kind == "write" && lt.marks[i].ack >= 0 && !lt.marks[i].ok {
				res.Count("unexpected-write-error", 1)
				if len(lt.writeErrs) > 0 && life == 0 {
					res.Harness("seed %d: write error: %s", w.Seed, firstLine(lt.writeErrs[0]))
				}
			}
		}
		if dumpWorkload {
			fmt.Println("---- lifetime from op", lt.from, "log:")
			for i, op := range lt.log {
				if i < 80 {
					fmt.Println("   ", op)
				}
			}
		}
		clean := enumerateCrashPoints(w, lt, model, exists, p, res, rng)
		// continue the history from a crash point whose recovery was clean
		if life+1 >= p.Lifetimes || len(clean) == 0 {
			break
		}
		kstar := clean[rng.Intn(len(clean))]
		img := lt.base.Clone()
		for i := 0; i < kstar; i++ {
			if lt.log[i].Mutating() {
				img.Apply(lt.log[i])
			}
		}
		cs := newCrashState(w, lt, model, exists)
		cs.advance(kstar)
		inf := cs.inflight(kstar)
		// resolve the in-flight write by observation
		rc := recoverOn(img.Clone(), w, cs.bucketsToRead(inf), w.Seed+uint64(kstar), lt.timeAt(kstar), nil)
		model = cs.acked
		exists = cs.exists
		if inf != nil && rc.Start == nil {
			for _, wr := range inf.W {
				eff := reqEffects(wr)
				if len(eff) == 0 {
					continue
				}
				e := eff[0]
				o := observe(e.b, rc.Rows[e.key])
				applied := (e.b.Variable && o.varCnt[e.id] > 0) || (!e.b.Variable && o.fixed[e.T] == e.id)
				if applied {
					model.ApplyWrite(wr)
					for _, pt := range wr.Parts {
						exists[pt.B.Key()] = pt.B
					}
				}
			}
		}
		// the next lifetime starts on the crash image (not on the recovered one:
		// its own startup will run recovery again, for real)
		fs = img
		startNanos = lt.timeAt(kstar) + int64(time.Duration(50+rng.Intn(5000))*time.Millisecond)
		// skip to the op after the next "crash" marker
		from = lt.to
		for from < len(w.Ops) && w.Ops[from].Kind != "crash" {
			from++
		}
		from++
		res.Count("continued-after-crash", 1)
	}
}

// enumerateCrashPoints sweeps k over the lifetime's log. Returns the crash
// points whose recovery showed no violation of the property.
func enumerateCrashPoints(w *Workload, lt *lifetime, model *Model, exists map[string]*Bucket, p CrashParams, res *Result, rng *simrt.Rand) []int {
	log := lt.log
	var ks []int
	for k := 0; k <= len(log); k++ {
		if k == 0 || log[k-1].Mutating() {
			ks = append(ks, k)
		}
	}
	if p.MaxK > 0 && len(ks) > p.MaxK {
		// stratified sample, always keeping the first and last
		keep := map[int]bool{ks[0]: true, ks[len(ks)-1]: true}
		for len(keep) < p.MaxK {
			keep[ks[rng.Intn(len(ks))]] = true
		}
		var nk []int
		for _, k := range ks {
			if keep[k] {
				nk = append(nk, k)
			}
		}
		ks = nk
	}
	synced := simos.SyncedBy(log)
	cs := newCrashState(w, lt, model, exists)
	img := lt.base.Clone()
	applied := 0
	var clean []int
	sampleDone := false
	for _, k := range ks {
		if pastDeadline(res) {
			break
		}
		for applied < k {
			if log[applied].Mutating() {
				img.Apply(log[applied])
			}
			applied++
		}
		cs.advance(k)
		inf := cs.inflight(k)
		buckets := cs.bucketsToRead(inf)
		type imgSpec struct {
			kind    string
			fs      *simos.FS
			dropped []*simos.Op
		}
		var imgs []imgSpec
		if !p.Power {
			imgs = append(imgs, imgSpec{"kill", img.Clone(), nil})
		} else {
			for _, pi := range powerImages(lt.base, log, synced, k, p.RandomSets, rng) {
				imgs = append(imgs, imgSpec{pi.kind, pi.fs, pi.dropped})
			}
		}
		allClean := true
		for _, im := range imgs {
			h := im.fs.Hash(dataRoot)
			rc := recoverOn(im.fs, w, buckets, w.Seed+uint64(k), lt.timeAt(k), nil)
			res.Evals++
			res.Count("recoveries", 1)
			if replayWork(rc.Log) {
				res.Count("recoveries-with-replay-work", 1)
				res.AddDistinct(fmt.Sprintf("%016x", h))
			}
			cs.dropped = im.dropped
			vs, ok := cs.check(p.Prop, k, im.kind, rc, inf, w.Seed)
			if !ok {
				res.Count("unevaluated-restart-failed", 1)
				allClean = false
				continue
			}
			if len(vs) > 0 {
				allClean = false
			}
			// a history is not continued from a crash point that leaves any bucket
			// unreadable - also one that the in-flight request was just creating (not
			// judged by C03, which speaks of buckets that existed before the crash):
			// the known half-created year file would otherwise be carried into the next
			// lifetime and show up there under windows that have nothing to do with it
			for _, b := range buckets {
				if rc.QErr[b.Key()] != nil {
					allClean = false
				}
			}
			if cs.createInFlight(k) {
				allClean = false // a half-made bucket directory rejects every later write
			}
			for _, v := range vs {
				v.Replay["workload"] = w.Describe()
				res.AddViolation(v)
			}
			if !sampleDone && inf != nil {
				sampleDone = true
				res.Sample(map[string]interface{}{"seed": w.Seed, "crash_point_k": k, "image": im.kind, "window": window(log, k),
					"log_len": len(log), "ops": w.Describe()})
			}
		}
		if allClean {
			clean = append(clean, k)
		}
	}
	res.Count("crash-points", int64(len(ks)))
	res.Count("log-ops", int64(len(log)))
	return clean
}

// replayWork tells whether recovery wrote to a primary (.bin) file.
func replayWork(log []*simos.Op) bool {
	for _, op := range log {
		if op.Kind == simos.OpWrite && strings.HasSuffix(op.Path, ".bin") {
			return true
		}
	}
	return false
}
