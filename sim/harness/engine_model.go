package harness

import (
	"fmt"
	"os"
	"sort"
	"time"

	"github.com/alpacahq/marketstore/v4/zzverif/simos"
	"github.com/alpacahq/marketstore/v4/zzverif/simrt"
)

// ---------------------------------------------------------------------------
// MODEL engine: the real server, fault-free, inside the simulator (virtual
// clock, background WAL writer, graceful restarts as generated operations),
// checked operation by operation against the reference model.
// ---------------------------------------------------------------------------

type modelRun struct {
	prop  string
	w     *Workload
	res   *Result
	fs    *simos.FS
	node  *Node
	model *Model
	stop  bool
	// lastWriteFeatures describes the last write op (for signatures)
	lastFeat string
}

func (mr *modelRun) violate(class, sig, detail string) {
	mr.res.AddViolation(&Violation{Prop: mr.prop, Class: class, Sig: mr.prop + "|" + sig, Detail: detail, Seed: mr.w.Seed,
		Replay: map[string]interface{}{"engine": "model", "workload": mr.w.Describe()}})
}

// runModelHistory executes the workload sequentially; after every operation
// hook(i, op, err) is called with the baton held.
func runModelHistory(prop string, w *Workload, res *Result, hook func(mr *modelRun, i int, op *WOp, err error)) *modelRun {
	fs := simos.New()
	fs.MkdirAll(dataRoot, 0o755)
	fs.Record = false
	simos.Cur = fs
	applyKnobs(w.Knobs)
	mr := &modelRun{prop: prop, w: w, res: res, fs: fs, model: NewModel()}
	res.Runs++
	if dumpWorkload {
		for i, l := range w.Describe() {
			fmt.Println(i-1, l)
		}
	}
	s := simrt.Run(w.Sim, func() {
		n, err := StartNode(dataRoot, w.Node)
		if err != nil {
			res.Harness("seed %d: initial start failed: %v", w.Seed, err)
			return
		}
		mr.node = n
		for i, op := range w.Ops {
			if mr.stop {
				break
			}
			var e error
			switch op.Kind {
			case "create":
				e = mr.node.Create(op.B)
				if e == nil {
					mr.model.Create(op.B)
				}
			case "write":
				e = mr.node.Write(op.W...)
				if e == nil {
					mr.model.ApplyWrite(op.W...)
				}
			case "query":
				_, e = mr.node.Query(op.Q)
			case "sleep":
				simrt.Sleep(op.D)
			case "destroy":
				e = mr.node.Destroy(op.Key)
				if e == nil {
					mr.model.Destroy(op.Key)
				}
			case "restart":
				if se := mr.node.Shutdown(); se != nil {
					e = se
					mr.stop = true
					break
				}
				simrt.AdvanceClock(time.Duration(1+i) * time.Millisecond)
				n2, se := StartNode(dataRoot, w.Node)
				if se != nil {
					e = se
					mr.stop = true
					break
				}
				mr.node = n2
			}
			res.Count("ops-"+op.Kind, 1)
			hook(mr, i, op, e)
		}
	})
	res.SimSeconds += s.VirtualElapsed().Seconds()
	res.Count("sim-steps", int64(s.Steps))
	res.Count("time-advances", int64(s.TimeAdvances))
	if s.Err != nil {
		mr.violateOrHarness(s)
	}
	for _, p := range s.Panics {
		if os.Getenv("VERIF_DUMP") != "" {
			fmt.Println(p.Stack)
		}
		mr.violate("task-panic", "task-panic|"+normMsg(fmt.Sprint(p.Panic))+" ["+stackFrames(p.Stack, 1)+"]",
			fmt.Sprintf("task %s panicked: %v [%s]", p.Name, firstLine(fmt.Sprint(p.Panic)), stackFrames(p.Stack, 3)))
	}
	return mr
}

func (mr *modelRun) violateOrHarness(s *simrt.Sim) {
	// a deadlock or step-cap in a fault-free sequential history is a hang of the server
	mr.violate("hang", "hang|"+normMsg(s.Err.Error()), "run did not complete: "+s.Err.Error())
}

func isFirstOfYear(t int64, tf time.Duration) bool {
	y := time.Unix(0, t).UTC().Year()
	return IntervalStart(t, tf) == yearStart(y)
}

func isLastOfYear(t int64, tf time.Duration) bool {
	y := time.Unix(0, t).UTC().Year()
	return IntervalStart(t, tf)+int64(tf) >= yearStart(y+1)
}

// writeFeatures summarises properties of a write op that matter for
// classifying a mismatch.
func writeFeatures(op *WOp) string {
	f := ""
	for _, wr := range op.W {
		for _, p := range wr.Parts {
			years := map[int]bool{}
			sorted := true
			for i, r := range p.Recs {
				years[time.Unix(0, r.T).UTC().Year()] = true
				if i > 0 && r.T < p.Recs[i-1].T {
					sorted = false
				}
			}
			if !sorted && len(years) > 1 {
				f = "unsorted-multi-year"
			}
		}
	}
	return f
}

// mismatchT extracts the timestamp a mismatch is about by re-deriving it.
func checkBucketAll(mr *modelRun, key string) {
	mb := mr.model.B[key]
	if mb == nil {
		return
	}
	rows, err := mr.node.Query(&QuerySpec{Dest: key})
	mr.res.Evals++
	b := mb.B
	if err != nil {
		if len(mb.Fixed)+len(mb.Var) == 0 {
			return // empty bucket: an error for "no data" is not what C08/C09 are about
		}
		cls := "query-error"
		if ae, ok := err.(*APIError); ok && ae.Panic {
			cls = "query-panic"
		}
		mr.violate(cls, fmt.Sprintf("%s|%s|%s|%s", cls, kindOf(b), b.TF, normMsg(err.Error())),
			fmt.Sprintf("all-time query of %s fails: %s", key, firstLine(err.Error())))
		mr.stop = true
		return
	}
	mm := CompareAll(mb, rows[key])
	mr.res.AddDistinct(histShape(mb))
	if mm == nil {
		return
	}
	feat := ""
	if mm.T != 0 {
		if isFirstOfYear(mm.T, b.TFDur()) {
			feat = "first-interval-of-year"
		} else if isLastOfYear(mm.T, b.TFDur()) {
			feat = "last-interval-of-year"
		}
	}
	if mr.lastFeat != "" {
		feat += "+" + mr.lastFeat
	}
	mr.violate(mm.Class, fmt.Sprintf("%s|%s|%s|%s", mm.Class, kindOf(b), b.TF, feat),
		fmt.Sprintf("bucket %s (%s, cols %v): %s", key, b.TF, b.Cols, mm.Detail))
	mr.stop = true
}

// histShape is a coarse hash of a bucket's history shape: distinct non-trivial
// cases = distinct (tf, kind, #rows bucketed, #years, has-duplicates).
func histShape(mb *MBucket) string {
	years := map[int]bool{}
	n := 0
	if mb.B.Variable {
		n = len(mb.Var)
		for _, r := range mb.Var {
			years[time.Unix(0, r.T).UTC().Year()] = true
		}
	} else {
		n = len(mb.Fixed)
		for t := range mb.Fixed {
			years[time.Unix(0, t).UTC().Year()] = true
		}
	}
	var ts []string
	for _, c := range mb.B.Cols {
		ts = append(ts, c.Typ)
	}
	sort.Strings(ts)
	return fmt.Sprintf("%s/%s/n%d/y%d/%v", kindOf(mb.B), mb.B.TF, n, len(years), ts)
}

func modelGenCfg(r *simrt.Rand, tier string, variable bool) *GenCfg {
	c := &GenCfg{
		// an all-time query scans whole year files: 1Sec = 31.5M slots. Fine
		// timeframes are sampled, but rarely, so that most runs stay cheap.
		TFs: []string{"1Sec", "10Sec", "30Sec", "1Min", "1Min", "5Min", "5Min", "5Min", "15Min", "15Min", "15Min", "30Min", "30Min", "30Min",
			"1H", "1H", "1H", "1H", "2H", "2H", "2H", "2H", "4H", "4H", "4H", "4H", "1D", "1D", "1D", "1D", "1D",
			"1H", "2H", "4H", "1D", "30Min", "15Min", "1H", "2H", "4H", "1D"},
		MinBuckets: 1, MaxBuckets: 2, VarPct: 0,
		MinOps: 2, MaxOps: 8, MaxRows: 8, BigRowsPct: 8, MultiPct: 15,
		SleepPct: 8, RestartPct: 10, QueryPct: 0, PreCreate: r.Pct(50), AvoidKnown: false, AllTypes: true,
		Years: []int{2020, 2021, 2022}, BgSyncPct: 50, MaxSleep: 6 * time.Minute, HotPct: 75, UnsortedPct: 50,
	}
	if variable {
		c.VarPct = 100
	}
	if tier == "thorough" {
		c.MaxOps = 16
		c.MaxBuckets = 3
	}
	return c
}

func lwwEngine(prop string, variable bool) *Engine {
	return &Engine{Name: "MODEL", Run: func(seed uint64, tier string, res *Result) {
		r := simrt.NewRand(seed ^ 0xBEEF)
		c := modelGenCfg(r, tier, variable)
		w := Gen(seed, c)
		if !w.Node.BackgroundSync {
			// graceful restarts without the background writer belong to C35
			var ops []*WOp
			for _, o := range w.Ops {
				if o.Kind != "restart" {
					ops = append(ops, o)
				}
			}
			w.Ops = ops
		}
		if variable && r.Pct(30) {
			addCompressibleBurst(w, r)
		}
		if r.Pct(15) {
			// a bucket is destroyed and created again under the same key with other
			// columns (another record width) while the server keeps running, and
			// written to again: nothing remembered about the old incarnation may leak
			old := w.Buckets[r.Intn(len(w.Buckets))]
			nb := &Bucket{Sym: old.Sym, TF: old.TF, Attr: old.Attr, Variable: old.Variable, Cols: []Col{{Name: "Id", Typ: "i8"}}}
			for j, nx := 0, r.Intn(4); j < nx; j++ {
				nb.Cols = append(nb.Cols, Col{Name: fmt.Sprintf("R%d", j), Typ: allTypes[r.Intn(len(allTypes))]})
			}
			w.Ops = append(w.Ops, &WOp{Kind: "destroy", Key: old.Key()}, &WOp{Kind: "create", B: nb})
			hot := hotTimes(r, nb, c)
			ids := &idGen{n: 700000}
			for k, nw := 0, 1+r.Intn(3); k < nw; k++ {
				recs := genRecs(r, c, nb, hot, ids, 1+r.Intn(5))
				w.Ops = append(w.Ops, &WOp{Kind: "write", W: []*WriteReq{{Variable: nb.Variable, Parts: []*BucketWrite{{B: nb, Recs: recs}}}}})
			}
			res.Count("bucket-recreated-with-other-columns", 1)
		}
		runModelHistory(prop, w, res, func(mr *modelRun, i int, op *WOp, err error) {
			switch op.Kind {
			case "write":
				if err != nil {
					mr.violate("write-rejected", "write-rejected|"+normMsg(err.Error()), fmt.Sprintf("valid write rejected: %s: %s", op, firstLine(err.Error())))
					mr.stop = true
					return
				}
				mr.lastFeat = writeFeatures(op)
				for _, wr := range op.W {
					for _, p := range wr.Parts {
						checkBucketAll(mr, p.B.Key())
					}
				}
			case "restart":
				if err != nil {
					mr.violate("restart-failed", "restart-failed|"+normMsg(err.Error()), "graceful restart failed: "+firstLine(err.Error()))
					return
				}
				keys := make([]string, 0, len(mr.model.B))
				for k := range mr.model.B {
					keys = append(keys, k)
				}
				sort.Strings(keys)
				for _, k := range keys {
					checkBucketAll(mr, k)
				}
			case "create":
				if err != nil {
					mr.violate("create-rejected", "create-rejected|"+normMsg(err.Error()), fmt.Sprintf("valid create rejected: %s: %s", op, firstLine(err.Error())))
					mr.stop = true
				}
			}
		})
		res.Sample(map[string]interface{}{"seed": seed, "ops": w.Describe()})
	}}
}

// addCompressibleBurst appends a variable bucket with constant padding columns
// and a burst of records in one interval, so that the stored block compresses
// by much more than the reader's 4x/8x estimate.
func addCompressibleBurst(w *Workload, r *simrt.Rand) {
	b := &Bucket{Sym: "ZPAD", TF: []string{"1Min", "1H", "1D", "5Min"}[r.Intn(4)], Attr: "TICK", Variable: true}
	b.Cols = append(b.Cols, Col{Name: "Id", Typ: "i8"})
	np := 4 + r.Intn(28)
	for j := 0; j < np; j++ {
		b.Cols = append(b.Cols, Col{Name: fmt.Sprintf("P%d", j), Typ: "f8", Const: true})
	}
	w.Buckets = append(w.Buckets, b)
	base := time.Date(2021, 3, 4, 10, 0, 0, 0, time.UTC).UnixNano()
	n := 20 + r.Intn(400)
	var recs []Rec
	id := int64(900000)
	for i := 0; i < n; i++ {
		id++
		recs = append(recs, Rec{T: base + int64(i)*1000, ID: id})
	}
	w.Ops = append(w.Ops, &WOp{Kind: "write", W: []*WriteReq{{Variable: true, Parts: []*BucketWrite{{B: b, Recs: recs}}}}})
}

func init() {
	Engines["C08"] = lwwEngine("C08", false)
	Engines["C09"] = lwwEngine("C09", true)
}
