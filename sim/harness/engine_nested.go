package harness

import (
	"fmt"
	"sort"
	"strings"
	"time"

	"github.com/alpacahq/marketstore/v4/zzverif/simos"
	"github.com/alpacahq/marketstore/v4/zzverif/simrt"
)

// ---------------------------------------------------------------------------
// C34: WAL files are replayed once and never discarded while needed.
// Nested crash enumeration: crash a lifetime at k, run the real recovery and
// record ITS operation log, then crash that recovery at every prefix j, restart
// again (and once more), and check the final state and the order of the
// cleaner's operations.
// ---------------------------------------------------------------------------

func relabel(vs []*Violation, extra string) []*Violation {
	for _, v := range vs {
		rest := v.Sig
		if i := strings.IndexByte(rest, '|'); i >= 0 {
			rest = rest[i+1:]
		}
		// drop the window of the outer crash point: for nested crashes the
		// signature is class + facts + where recovery itself was interrupted
		parts := strings.Split(rest, "|")
		if len(parts) > 3 {
			parts = parts[:len(parts)-1]
		}
		v.Prop = "C34"
		v.Sig = "C34|" + strings.Join(parts, "|") + "|" + extra
	}
	return vs
}

// cleanerOrderViolations checks a recovery's own operation log: the instance's
// own WAL is never removed or renamed, and an old WAL is unlinked only after a
// global sync that follows the last primary-file write before it.
func cleanerOrderViolations(log []*simos.Op) []string {
	var out []string
	own := ""
	for _, op := range log {
		if op.Kind == simos.OpCreate && strings.HasSuffix(op.Path, ".walfile") {
			own = op.Path
			break
		}
	}
	lastPrimary, lastSync := -1, -1
	for i, op := range log {
		switch {
		case op.Kind == simos.OpWrite && strings.HasSuffix(op.Path, ".bin"):
			lastPrimary = i
		case op.Kind == simos.OpSyncFS:
			lastSync = i
		case (op.Kind == simos.OpRemove || op.Kind == simos.OpRename) && strings.HasSuffix(op.Path, ".walfile"):
			if op.Path == own {
				out = append(out, fmt.Sprintf("own-wal-%s: the starting instance's own WAL %s was %sd by %s", op.Kind, own, op.Kind, op.Site))
			}
			if op.Kind == simos.OpRemove && lastPrimary >= 0 && lastSync < lastPrimary {
				out = append(out, fmt.Sprintf("wal-removed-before-sync: %s unlinked at recovery op %d but the primary write at op %d is not followed by a global sync", op.Path, i, lastPrimary))
			}
		case op.Kind == simos.OpWrite && op.Path == own && (strings.Contains(op.Chain, "Replay") || strings.Contains(op.Chain, "replayTGData")):
			out = append(out, "own-wal-replayed: the starting instance's own WAL was written by the replay code: "+op.Chain)
		}
	}
	return out
}

// whereClass names the kind of recovery operation after which recovery was cut.
func whereClass(op *simos.Op) string {
	switch {
	case strings.HasSuffix(op.Path, ".walfile") || strings.HasSuffix(op.Path2, ".walfile"):
		return "wal-" + op.Kind.String()
	case op.Kind == simos.OpWrite && strings.HasSuffix(op.Path, ".bin") && len(op.Data) == 24 && strings.Contains(op.Site, "Indirect"):
		return "primary-index-write"
	case op.Kind == simos.OpWrite && strings.HasSuffix(op.Path, ".bin"):
		return "primary-data-write"
	}
	return op.Kind.String()
}

func c34Engine() *Engine {
	return &Engine{Name: "CRASH", Run: func(seed uint64, tier string, res *Result) {
		r := simrt.NewRand(seed ^ 0x3434)
		c := crashGenCfg(r, tier)
		c.MaxOps = 8
		c.RestartPct = 0
		w := Gen(seed, c)
		insertCrashOps(w, r, 2)
		nk := 5
		if tier == "thorough" {
			nk = 16
		}
		fs := simos.New()
		fs.MkdirAll(dataRoot, 0o755)
		model := NewModel()
		exists := map[string]*Bucket{}
		taint := map[string]string{}
		res.Runs++
		from := 0
		var startNanos int64
		for life := 0; life < 2 && from < len(w.Ops); life++ {
			lt := runLifetime(fs, w, from, startNanos, model, taint)
			res.SimSeconds += lt.sim.VirtualElapsed().Seconds()
			if lt.start != nil || lt.sim.Err != nil {
				res.Count("lifetime-unusable", 1)
				return
			}
			log := lt.log
			var ks []int
			for k := 1; k <= len(log); k++ {
				if log[k-1].Mutating() {
					ks = append(ks, k)
				}
			}
			if len(ks) == 0 {
				return
			}
			// prefer crash points where a WAL holds un-checkpointed transactions
			var pick []int
			for len(pick) < nk && len(pick) < len(ks) {
				pick = append(pick, ks[r.Intn(len(ks))])
			}
			var cleanK []int
			for _, k := range pick {
				img1 := lt.base.Clone()
				for i := 0; i < k; i++ {
					if log[i].Mutating() {
						img1.Apply(log[i])
					}
				}
				cs := newCrashState(w, lt, model, exists)
				cs.advance(k)
				inf := cs.inflight(k)
				buckets := cs.bucketsToRead(inf)
				first := img1.Clone()
				rc1 := recoverOn(first, w, buckets, seed+uint64(k), lt.timeAt(k), nil)
				res.Count("outer-recoveries", 1)
				if rc1.Start != nil || rc1.SimErr != nil {
					res.Count("outer-restart-failed", 1) // C03's subject
					continue
				}
				v1, _ := cs.check("C02", k, "kill", rc1, inf, seed)
				v1b, _ := cs.check("C01", k, "kill", rc1, inf, seed)
				if len(v1)+len(v1b) == 0 {
					cleanK = append(cleanK, k)
				}
				for _, s := range cleanerOrderViolations(rc1.Log) {
					cls := strings.SplitN(s, ":", 2)[0]
					res.AddViolation(&Violation{Prop: "C34", Class: cls, Sig: "C34|" + cls, Detail: s + fmt.Sprintf(" (outer crash point k=%d, window %s)", k, window(log, k)), Seed: seed,
						Replay: map[string]interface{}{"engine": "nested", "k": k, "workload": w.Describe()}})
				}
				rlog := rc1.Log
				for j := 1; j <= len(rlog); j++ {
					if !rlog[j-1].Mutating() {
						continue
					}
					if pastDeadline(res) {
						break
					}
					img2 := img1.Clone()
					for i := 0; i < j; i++ {
						if rlog[i].Mutating() {
							img2.Apply(rlog[i])
						}
					}
					at2 := rlog[j-1].Time
					rc2 := recoverOn(img2, w, buckets, seed+uint64(k*1000+j), at2, nil)
					res.Evals++
					res.AddDistinct(fmt.Sprintf("%016x", img2.Hash(dataRoot)^uint64(j)))
					where := "recovery-interrupted@" + whereClass(rlog[j-1])
					if rc2.Start != nil || rc2.SimErr != nil {
						msg := "sim: "
						stack := ""
						if rc2.Start != nil {
							msg = fmt.Sprint(rc2.Start.Panic)
							stack = rc2.Start.Stack
						} else {
							msg += rc2.SimErr.Error()
						}
						res.AddViolation(&Violation{Prop: "C34", Class: "second-restart-failed", Sig: "C34|second-restart-failed|" + cause(msg, stack) + "|" + where, Seed: seed,
							Detail: fmt.Sprintf("crash at k=%d, recovery interrupted after its op %d (%s): the next startup fails: %s", k, j, opLabel(rlog[j-1]), firstLine(msg)),
							Replay: map[string]interface{}{"engine": "nested", "k": k, "j": j, "workload": w.Describe()}})
						continue
					}
					var vs []*Violation
					a, _ := cs.check("C01", k, "kill", rc2, inf, seed)
					b, _ := cs.check("C02", k, "kill", rc2, inf, seed)
					vs = append(vs, relabel(a, where)...)
					vs = append(vs, relabel(b, where)...)
					for _, v := range vs {
						v.Detail = fmt.Sprintf("crash at k=%d, recovery interrupted after its op %d of %d, then restarted: %s", k, j, len(rlog), v.Detail)
						v.Replay["j"] = j
						v.Replay["workload"] = w.Describe()
						res.AddViolation(v)
					}
					// "replayed once": the known defect re-appends the variable records of a
					// transaction that a cut recovery had applied but not yet checkpointed.
					// Replay checkpoints after every transaction, so a single interruption
					// can leave at most ONE transaction in that state. The client is a
					// single task that waits for its flush, so a transaction never holds
					// records of two requests: records of two different requests that both
					// appear three times mean that the interrupted recovery had moved on to a
					// later transaction without making the earlier one's replay final.
					// (Only when every leftover WAL ends on a record boundary: after a torn
					// last record the replay's own checkpoint records are appended behind
					// the torn bytes, where the next start's scan never gets to - then all
					// transactions are replayed again, which is the known defect at its
					// widest and says nothing about the order of replay and checkpoint.)
					walsWhole := true
					for _, pth := range img1.Walk(dataRoot) {
						if strings.HasSuffix(pth, ".walfile") {
							if wb, ok := img1.FileBytes(pth); ok {
								recs := parseWAL(wb)
								if len(wb) > 0 && (len(recs) == 0 || recs[len(recs)-1].end != int64(len(wb))) {
									walsWhole = false
								}
							}
						}
					}
					if walsWhole {
						reqOf := map[int64]int{}
						for oi := lt.from; oi < lt.to; oi++ {
							if w.Ops[oi].Kind != "write" {
								continue
							}
							for _, wr := range w.Ops[oi].W {
								for _, pt := range wr.Parts {
									if pt.B.Variable {
										for _, rcd := range pt.Recs {
											reqOf[rcd.ID] = oi
										}
									}
								}
							}
						}
						triple := map[int]int64{}
						for _, b := range buckets {
							if !b.Variable || rc2.QErr[b.Key()] != nil {
								continue
							}
							if _, t := lt.taint[b.Key()]; t {
								continue
							}
							o := observe(b, rc2.Rows[b.Key()])
							for id, cnt := range o.varCnt {
								if oi, ok := reqOf[id]; ok && cnt >= 3 {
									triple[oi] = id
								}
							}
						}
						if len(triple) >= 2 && verboseLog {
							for i, op := range rlog {
								if op.Mutating() || op.Kind == simos.OpSyncFS || op.Kind == simos.OpSync {
									mark := " "
									if i == j-1 {
										mark = "<<< cut"
									}
									fmt.Printf("   R1 %3d %s %s off=%d %s\n", i, opLabel(op), strings.TrimPrefix(op.Path, dataRoot), op.Off, mark)
								}
							}
							for i, op := range rc2.Log {
								if op.Mutating() || op.Kind == simos.OpSyncFS {
									fmt.Printf("   R2 %3d %s %s off=%d\n", i, opLabel(op), strings.TrimPrefix(op.Path, dataRoot), op.Off)
								}
							}
							for _, b := range buckets {
								fmt.Printf("   COUNTS %s %v\n", b.Key(), observe(b, rc2.Rows[b.Key()]).varCnt)
							}
						}
						if len(triple) >= 2 {
							var ois []int
							for oi := range triple {
								ois = append(ois, oi)
							}
							sort.Ints(ois)
							res.AddViolation(&Violation{Prop: "C34", Class: "several-transactions-replayed-twice", Sig: "C34|several-transactions-replayed-twice|" + where, Seed: seed,
								Detail: fmt.Sprintf("crash at k=%d, recovery interrupted after its op %d of %d (%s), then restarted: variable-length records of %d different requests (operations %v, e.g. ids %d and %d) are each stored three times - the interrupted recovery had replayed more than one transaction without making any of them final", k, j, len(rlog), opLabel(rlog[j-1]), len(ois), ois, triple[ois[0]], triple[ois[1]]),
								Replay: map[string]interface{}{"engine": "nested", "k": k, "j": j, "workload": w.Describe()}})
						}
					}
					for _, s := range cleanerOrderViolations(rc2.Log) {
						cls := strings.SplitN(s, ":", 2)[0]
						res.AddViolation(&Violation{Prop: "C34", Class: cls, Sig: "C34|" + cls, Detail: s + fmt.Sprintf(" (k=%d, j=%d)", k, j), Seed: seed,
							Replay: map[string]interface{}{"engine": "nested", "k": k, "j": j, "workload": w.Describe()}})
					}
					// a further restart must find nothing to replay: no primary write
					if j == len(rlog) || r.Pct(25) {
						rc3 := recoverOn(img2, w, buckets, seed+uint64(k*1000+j)+7, at2+int64(5*time.Second), nil)
						res.Count("third-restarts", 1)
						if rc3.Start == nil && rc3.SimErr == nil && replayWork(rc3.Log) {
							res.AddViolation(&Violation{Prop: "C34", Class: "replayed-again", Sig: "C34|replayed-again|" + where, Seed: seed,
								Detail: fmt.Sprintf("crash at k=%d, recovery interrupted after its op %d, restarted, and a further restart still writes to primary files: a WAL is replayed more than once", k, j),
								Replay: map[string]interface{}{"engine": "nested", "k": k, "j": j, "workload": w.Describe()}})
						}
					}
				}
			}
			res.Sample(map[string]interface{}{"seed": seed, "lifetime": life, "outer_crash_points": pick, "ops": w.Describe()})
			if len(cleanK) == 0 {
				return
			}
			// continue with a second lifetime on a crash image (leftover WAL present)
			kstar := cleanK[r.Intn(len(cleanK))]
			img := lt.base.Clone()
			for i := 0; i < kstar; i++ {
				if log[i].Mutating() {
					img.Apply(log[i])
				}
			}
			cs := newCrashState(w, lt, model, exists)
			cs.advance(kstar)
			inf := cs.inflight(kstar)
			rc := recoverOn(img.Clone(), w, cs.bucketsToRead(inf), seed+uint64(kstar), lt.timeAt(kstar), nil)
			model, exists = cs.acked, cs.exists
			if inf != nil && rc.Start == nil {
				for _, wr := range inf.W {
					eff := reqEffects(wr)
					if len(eff) == 0 {
						continue
					}
					e := eff[0]
					o := observe(e.b, rc.Rows[e.key])
					if (e.b.Variable && o.varCnt[e.id] > 0) || (!e.b.Variable && o.fixed[e.T] == e.id) {
						model.ApplyWrite(wr)
						for _, pt := range wr.Parts {
							exists[pt.B.Key()] = pt.B
						}
					}
				}
			}
			fs = img
			startNanos = lt.timeAt(kstar) + int64(2*time.Second)
			from = lt.to
			for from < len(w.Ops) && w.Ops[from].Kind != "crash" {
				from++
			}
			from++
		}
	}}
}

func init() {
	Engines["C34"] = c34Engine()
}
