package harness

import (
	"strings"
	"runtime"
	"context"
	"encoding/binary"
	"errors"
	"fmt"
	"net"
	"sort"
	"time"

	"google.golang.org/grpc"
	"google.golang.org/grpc/metadata"
	"google.golang.org/grpc/peer"

	"github.com/alpacahq/marketstore/v4/executor"
	pb "github.com/alpacahq/marketstore/v4/proto"
	"github.com/alpacahq/marketstore/v4/replication"
	"github.com/alpacahq/marketstore/v4/zzverif/simos"
	"github.com/alpacahq/marketstore/v4/zzverif/simrt"
)

// ---------------------------------------------------------------------------
// REPL engine: master and replicas in one simulation over a simulated stream
// transport. Real code: GRPCReplicationServer, Sender, Receiver, Retryer,
// ReplayerImpl, the master's WAL flush path and the replica's write path.
// Stubbed: the gRPC stream (simStream / simClient), TCP.
// ---------------------------------------------------------------------------

type simLink struct {
	id      int
	addr    string
	queue   [][]byte
	down    bool
	latency time.Duration
	ready   []int64 // virtual time at which queue[i] may be received
	recv    [][]byte
	// sendDelay > 0: a slow replica - the master's stream.Send takes this long per
	// message (flow control), so the stream's channel on the master fills up
	sendDelay time.Duration
}

type simAddr string

func (a simAddr) Network() string { return "tcp" }
func (a simAddr) String() string  { return string(a) }

var _ net.Addr = simAddr("")

// simStream is the master's end of one replica connection.
type simStream struct {
	link *simLink
	ctx  context.Context
}

func (s *simStream) Send(m *pb.GetWALStreamResponse) error {
	simrt.Yield("stream-send")
	if s.link.down {
		return errors.New("transport is closing")
	}
	if d := s.link.sendDelay; d > 0 {
		simrt.Sleep(d)
		if s.link.down {
			return errors.New("transport is closing")
		}
	}
	s.link.queue = append(s.link.queue, m.TransactionGroup)
	s.link.ready = append(s.link.ready, simrt.NowNanos()+int64(s.link.latency))
	return nil
}
func (s *simStream) SetHeader(metadata.MD) error  { return nil }
func (s *simStream) SendHeader(metadata.MD) error { return nil }
func (s *simStream) SetTrailer(metadata.MD)       {}
func (s *simStream) Context() context.Context     { return s.ctx }
func (s *simStream) SendMsg(interface{}) error    { return nil }
func (s *simStream) RecvMsg(interface{}) error    { return nil }

var _ grpc.ServerStream = (*simStream)(nil)

// simClient is a replica's GRPCClient: each Connect opens a new link and runs
// the master's real GetWALStream handler as a task.
type simClient struct {
	name    string
	server  *replication.GRPCReplicationServer
	links   []*simLink
	cur     *simLink
	port    *int
	latency time.Duration
	refuse  func() bool
	// slowFirst > 0: the first connection of this replica is slow (see simLink.sendDelay)
	slowFirst time.Duration
}

func (c *simClient) Connect(ctx context.Context) error {
	simrt.Yield("connect")
	if c.refuse != nil && c.refuse() {
		return errors.New("connection refused")
	}
	*c.port++
	l := &simLink{id: len(c.links), addr: fmt.Sprintf("10.0.0.%s:%d", c.name, *c.port), latency: c.latency}
	if len(c.links) == 0 {
		l.sendDelay = c.slowFirst
	}
	c.links = append(c.links, l)
	c.cur = l
	sctx := peer.NewContext(context.Background(), &peer.Peer{Addr: simAddr(l.addr)})
	st := &simStream{link: l, ctx: sctx}
	srv := c.server
	simrt.GoNamed("GetWALStream:"+l.addr, func() {
		srv.GetWALStream(&pb.GetWALStreamRequest{}, st)
	})
	return nil
}

func (c *simClient) Recv() ([]byte, error) {
	l := c.cur
	if l == nil {
		return nil, errors.New("no stream connection to master")
	}
	simrt.WaitUntil(func() bool { return l.down || (len(l.queue) > 0 && l.ready[0] <= simrt.NowNanos()) || len(l.queue) > 0 }, "stream-recv")
	if len(l.queue) == 0 {
		return nil, errors.New("failed to get a message from gRPC stream: transport is closing")
	}
	if d := l.ready[0] - simrt.NowNanos(); d > 0 {
		simrt.Sleep(time.Duration(d))
	}
	if len(l.queue) == 0 || (l.down && false) {
		return nil, errors.New("failed to get a message from gRPC stream: transport is closing")
	}
	m := l.queue[0]
	l.queue, l.ready = l.queue[1:], l.ready[1:]
	l.recv = append(l.recv, m)
	return m, nil
}

// spyService records every transaction group the sender fans out, together
// with the replica addresses registered at that moment.
type spyService struct {
	inner *replication.GRPCReplicationServer
	sent  []spySent
}

type spySent struct {
	tgid  int64
	addrs map[string]bool
}

func (s *spyService) SendReplicationMessage(tg []byte) {
	e := spySent{tgid: int64(binary.LittleEndian.Uint64(tg)), addrs: map[string]bool{}}
	for _, a := range s.inner.VerifRegistered() {
		e.addrs[a] = true
	}
	s.sent = append(s.sent, e)
	if verboseLog && len(s.sent) >= 2 && s.sent[len(s.sent)-2].tgid == e.tgid {
		buf := make([]byte, 1<<20)
		buf = buf[:runtime.Stack(buf, true)]
		for _, g := range strings.Split(string(buf), "\n\n") {
			if strings.Contains(g, "FlushCommandsToWAL") || strings.Contains(g, "FlushToWAL") {
				fmt.Println("  FLUSHER:", g)
			}
		}
	}
	if verboseLog {
		fmt.Printf("  SPY fan-out tgid=%d len=%d task=%s t=%d\n", e.tgid, len(tg), simrt.S.TaskName(simrt.CurTaskID()), simrt.NowNanos())
	}
	s.inner.SendReplicationMessage(tg)
}

// startMaster starts a node whose WAL feeds the real replication sender.
func startMaster(root string, o NodeOpts, spy *spyService) (*Node, context.CancelFunc, error) {
	var cancel context.CancelFunc
	n, err := startNodeWith(root, o, func(n *nodeBuild) {
		sender := replication.NewSender(spy)
		n.c.VerifSetReplicationSender(sender)
		ctx, cf := context.WithCancel(context.Background())
		cancel = cf
		sender.Run(ctx)
	})
	return n, cancel, err
}

// ---- C25 ----

func c25Engine() *Engine {
	return &Engine{Name: "REPL", Run: func(seed uint64, tier string, res *Result) {
		r := simrt.NewRand(seed ^ 0x2525)
		c := &GenCfg{TFs: []string{"1Sec", "1Min", "5Min", "15Min", "1H", "1H", "2H", "4H", "1D", "30Min", "10Sec"}, MinBuckets: 1, MaxBuckets: 3, VarPct: 50,
			MinOps: 2, MaxOps: 7, MaxRows: 5, BigRowsPct: 0, MultiPct: 25, SleepPct: 10, PreCreate: false, AvoidKnown: true, AllTypes: true,
			Years: []int{2021, 2022}, BgSyncPct: 100, MaxSleep: 3 * time.Second, HotPct: 60, UnsortedPct: 0}
		if tier == "thorough" {
			c.MaxOps = 14
		}
		w := Gen(seed, c)
		w.Node.BackgroundSync = true
		w.Sim.PreemptPct = []int{0, 0, 5, 20}[r.Intn(4)]
		nrep := 1 + r.Intn(2)
		mixed := r.Pct(50) // transactions mixing fixed and variable buckets: two writer tasks, no think time
		fs := simos.New()
		fs.MkdirAll("/m", 0o755)
		simos.Cur = fs
		applyKnobs(map[string]int{"WriteChannelCommandDepth": 4096})
		res.Runs++
		type result struct {
			rows map[string][]OutRow
			errs map[string]error
		}
		var mres result
		rres := make([]result, nrep)
		var replErrs []string
		var werr []string
		model := NewModel()
		s := simrt.Run(w.Sim, func() {
			server := replication.NewGRPCReplicationServer()
			spy := &spyService{inner: server}
			master, cancelSender, err := startMaster("/m", w.Node, spy)
			if err != nil {
				res.Harness("seed %d: master start failed: %v", seed, err)
				return
			}
			defer cancelSender()
			port := 40000
			var replicas []*Node
			for i := 0; i < nrep; i++ {
				root := fmt.Sprintf("/r%d", i)
				fs.MkdirAll(root, 0o755)
				ro := w.Node
				ro.SecondaryNode = true
				rn, err := startNodeWith(root, ro, nil)
				if err != nil {
					res.Harness("seed %d: replica start failed: %v", seed, err)
					return
				}
				replicas = append(replicas, rn)
				cl := &simClient{name: fmt.Sprint(10 + i), server: server, port: &port, latency: time.Duration(r.Intn(20)) * time.Millisecond}
				replayer := replication.NewReplayer(executor.ParseTGData, rn.C.GetDefaultWriter().WriteCSM, rn.C.GetAbsRootDir())
				recv := replication.NewReceiver(cl, replayer)
				rt := replication.NewRetryer(recv.Run, 10*time.Second, 2)
				i := i
				simrt.GoNamed(fmt.Sprintf("replica%d", i), func() {
					if e := rt.Run(context.Background()); e != nil {
						replErrs = append(replErrs, fmt.Sprintf("replica %d: %v", i, e))
					}
				})
			}
			simrt.Sleep(5 * time.Millisecond) // replicas connected, WAL writers up
			if len(server.StreamChannels) != nrep {
				res.Harness("seed %d: %d of %d replicas registered", seed, len(server.StreamChannels), nrep)
				return
			}
			runOps := func(ops []*WOp) {
				for _, op := range ops {
					switch op.Kind {
					case "write":
						if e := master.Write(op.W...); e != nil {
							werr = append(werr, firstLine(e.Error()))
							return
						}
						model.ApplyWrite(op.W...)
					case "sleep":
						simrt.Sleep(op.D)
					}
				}
			}
			if mixed && len(w.Ops) >= 2 {
				half := len(w.Ops) / 2
				wg := &simrt.WaitGroup{}
				for _, part := range [][]*WOp{w.Ops[:half], w.Ops[half:]} {
					part := part
					wg.Add(1)
					simrt.GoNamed("writer", func() { defer wg.Done(); runOps(part) })
				}
				wg.Wait()
			} else {
				runOps(w.Ops)
			}
			// quiescence: everything transmitted and applied
			simrt.Sleep(5 * time.Second)
			keys := make([]string, 0, len(model.B))
			for k := range model.B {
				keys = append(keys, k)
			}
			sort.Strings(keys)
			read := func(n *Node) result {
				out := result{rows: map[string][]OutRow{}, errs: map[string]error{}}
				for _, k := range keys {
					rows, e := n.Query(&QuerySpec{Dest: k})
					if e != nil {
						out.errs[k] = e
					} else {
						out.rows[k] = rows[k]
					}
				}
				return out
			}
			mres = read(master)
			for i, rn := range replicas {
				rres[i] = read(rn)
			}
			res.Count("transactions-sent", int64(len(spy.sent)))
		})
		res.SimSeconds += s.VirtualElapsed().Seconds()
		mk := func(class, sig, detail string) {
			res.AddViolation(&Violation{Prop: "C25", Class: class, Sig: "C25|" + sig, Detail: detail, Seed: seed,
				Replay: map[string]interface{}{"engine": "repl", "replicas": nrep, "mixed": mixed, "workload": w.Describe()}})
		}
		if s.Err != nil {
			mk("hang", "hang|"+hangWho(s.Err.Error()), "run did not complete: "+s.Err.Error())
			return
		}
		for _, p := range s.Panics {
			mk("task-panic", "task-panic|"+normMsg(fmt.Sprint(p.Panic))+" ["+stackFrames(p.Stack, 1)+"]", fmt.Sprintf("task %s panicked: %v [%s]", p.Name, firstLine(fmt.Sprint(p.Panic)), stackFrames(p.Stack, 3)))
			return
		}
		if len(werr) > 0 || mres.rows == nil {
			res.Count("master-write-rejected", 1)
			return
		}
		for _, e := range replErrs {
			mk("replica-stopped", "replica-stopped|"+normMsg(e), "a replica's receiver gave up: "+firstLine(e))
		}
		if len(replErrs) > 0 {
			return
		}
		for k, mb := range model.B {
			res.AddDistinct(fmt.Sprintf("%s/%s/mixed=%v/rep%d/%d", kindOf(mb.B), mb.B.TF, mixed, nrep, minInt(len(mres.rows[k]), 12)))
		}
		keys := make([]string, 0, len(model.B))
		for k := range model.B {
			keys = append(keys, k)
		}
		sort.Strings(keys)
		for i := range rres {
			for _, k := range keys {
				res.Evals++
				b := model.B[k].B
				if mres.errs[k] != nil {
					continue // the master itself cannot answer: not a convergence question
				}
				if rres[i].errs[k] != nil {
					mk("replica-query-error", "replica-query-error|"+kindOf(b)+"|"+normMsg(rres[i].errs[k].Error()), fmt.Sprintf("replica %d cannot answer the query of %s that the master answers with %d rows: %s", i, k, len(mres.rows[k]), firstLine(rres[i].errs[k].Error())))
					continue
				}
				mrows, rrows := mres.rows[k], rres[i].rows[k]
				if len(mrows) != len(rrows) {
					mk("row-count", "row-count|"+kindOf(b)+"|"+b.TF, fmt.Sprintf("bucket %s: master returns %d rows %s, replica %d returns %d rows %s", k, len(mrows), descRows(mrows), i, len(rrows), descRows(rrows)))
					continue
				}
				for j := range mrows {
					if mrows[j].Sig() != rrows[j].Sig() {
						mk("values-differ", "values-differ|"+kindOf(b), fmt.Sprintf("bucket %s row %d: master %s, replica %d %s", k, j, mrows[j].Sig(), i, rrows[j].Sig()))
						break
					}
					dt := mrows[j].T - rrows[j].T
					if dt < 0 {
						dt = -dt
					}
					tol := int64(0)
					if b.Variable {
						tol = int64(b.TFDur())>>32 + 1
					}
					if dt > tol {
						cls := "sub-second"
						if dt >= 1e9 {
							cls = "whole-seconds"
						}
						mk("time-differs", "time-differs|"+kindOf(b)+"|"+cls, fmt.Sprintf("bucket %s row %d: master returns it at %s, replica %d at %s (allowed difference %d ns)", k, j, ts(mrows[j].T), i, ts(rrows[j].T), tol))
						break
					}
				}
			}
		}
		res.Sample(map[string]interface{}{"seed": seed, "replicas": nrep, "mixed": mixed, "ops": w.Describe()})
	}}
}

// ---- C26 ----

type recReplayer struct{ got *[]int64 }

func (r recReplayer) Replay(tg []byte) error {
	*r.got = append(*r.got, int64(binary.LittleEndian.Uint64(tg)))
	return nil
}

func c26Engine() *Engine {
	return &Engine{Name: "REPL+SCHED", Run: func(seed uint64, tier string, res *Result) {
		r := simrt.NewRand(seed ^ 0x2626)
		w := schedWorkload(seed, tier, 40)
		w.Knobs["defaultReplicationStreamChannelSize"] = []int{500, 8, 2}[r.Intn(3)]
		w.Knobs["defaultSenderChannelSize"] = []int{500, 8, 2}[r.Intn(3)]
		nrep := 2 + r.Intn(3)
		burst := r.Pct(60)
		slowReplicas := r.Pct(35)
		if burst {
			w.Sim.PreemptPct = []int{10, 30, 60}[r.Intn(3)]
		}
		fs := simos.New()
		fs.MkdirAll("/m", 0o755)
		simos.Cur = fs
		applyKnobs(w.Knobs)
		res.Runs++
		type conn struct {
			rep  int
			link *simLink
			cut  bool
		}
		var conns []*conn
		clients := make([]*simClient, nrep)
		gots := make([][]int64, nrep)
		var spy *spyService
		writesOK, writesTotal := 0, 0
		var stuck int
		ids := &idGen{n: 5000}
		gc := &GenCfg{Years: []int{2021, 2022}, HotPct: 80, MaxRows: 3, AvoidKnown: true}
		s := simrt.Run(w.Sim, func() {
			server := replication.NewGRPCReplicationServer()
			spy = &spyService{inner: server}
			master, cancelSender, err := startMaster("/m", w.Node, spy)
			if err != nil {
				res.Harness("seed %d: master start failed: %v", seed, err)
				return
			}
			defer cancelSender()
			for _, b := range w.Buckets {
				master.Create(b)
			}
			simrt.Sleep(time.Millisecond)
			port := 50000
			ctx, cancelAll := context.WithCancel(context.Background())
			defer cancelAll()
			for i := 0; i < nrep; i++ {
				i := i
				cl := &simClient{name: fmt.Sprint(20 + i), server: server, port: &port, latency: time.Duration(r.Intn(5)) * time.Millisecond}
				if slowReplicas && r.Pct(50) {
					// a replica that does not keep up: its stream's channel on the master
					// fills, the sender blocks on it - until it disconnects (below)
					cl.slowFirst = []time.Duration{100 * time.Millisecond, time.Second, 5 * time.Second}[r.Intn(3)]
					res.Count("slow-replicas", 1)
				}
				clients[i] = cl
				recv := replication.NewReceiver(cl, recReplayer{&gots[i]})
				rt := replication.NewRetryer(recv.Run, time.Duration(5+r.Intn(200))*time.Millisecond, 2)
				start := time.Duration(r.Intn(300)) * time.Millisecond
				simrt.GoNamed(fmt.Sprintf("replica%d", i), func() {
					simrt.Sleep(start)
					rt.Run(ctx)
				})
			}
			// writers
			wg := &simrt.WaitGroup{}
			nw := 1 + r.Intn(2)
			hot := map[*Bucket][]int64{}
			for _, b := range w.Buckets {
				hot[b] = hotTimes(r, b, gc)[:3]
			}
			for wi := 0; wi < nw; wi++ {
				wr := r.Fork()
				wg.Add(1)
				simrt.GoNamed(fmt.Sprintf("writer%d", wi), func() {
					defer wg.Done()
					for k := 0; k < 6+wr.Intn(8); k++ {
						b := w.Buckets[wr.Intn(len(w.Buckets))]
						req := &WriteReq{Variable: b.Variable, Parts: []*BucketWrite{{B: b, Recs: genRecs(wr, gc, b, hot[b], ids, 1+wr.Intn(2))}}}
						writesTotal++
						if e := master.Write(req); e == nil {
							writesOK++
						}
						// bursts: several requests back to back let the WAL writer queue
						// transactions faster than the sender task fans them out
						if !burst || wr.Pct(30) {
							simrt.Sleep(time.Duration(wr.Intn(120)) * time.Millisecond)
						}
					}
				})
			}
			// chaos: cut links at tape-chosen moments (short gaps in burst mode so
			// that cuts land while transactions are in flight)
			cuts := 2 + r.Intn(5)
			if burst {
				cuts += 6
			}
			for k := 0; k < cuts; k++ {
				if burst {
					simrt.Sleep(time.Duration(1+r.Intn(25)) * time.Millisecond)
				} else {
					simrt.Sleep(time.Duration(20+r.Intn(400)) * time.Millisecond)
				}
				i := r.Intn(nrep)
				if cl := clients[i]; cl != nil && cl.cur != nil && !cl.cur.down {
					cl.cur.down = true
					res.Count("links-cut", 1)
				}
			}
			// a stalled replica that stays connected blocks the master by design; the
			// property is about disconnects, so every slow connection is cut in the end
			if slowReplicas {
				simrt.Sleep(400 * time.Millisecond) // every replica has connected by now (start delays are below 300 ms)
			}
			for _, cl := range clients {
				for _, l := range cl.links {
					if l.sendDelay > 0 && !l.down {
						simrt.Sleep(time.Duration(1+r.Intn(200)) * time.Millisecond)
						l.down = true
						res.Count("slow-links-cut", 1)
					}
				}
			}
			// writers must finish within a bounded virtual time after the last cut
			for t := 0; t < 600 && wg.Count() > 0; t++ {
				simrt.Sleep(100 * time.Millisecond)
			}
			stuck = wg.Count()
			simrt.Sleep(3 * time.Second)
			if slowReplicas {
				// the sender may still sit in a slow stream's last Send and have a
				// backlog behind it: let everything drain before connections are judged
				simrt.Sleep(12 * time.Second)
			}
			for i, cl := range clients {
				for _, l := range cl.links {
					conns = append(conns, &conn{rep: i, link: l, cut: l.down})
				}
			}
		})
		res.SimSeconds += s.VirtualElapsed().Seconds()
		res.Count("switches", int64(s.Switch))
		res.Count("preemptions", int64(s.Preempt))
		res.Count("connections", int64(len(conns)))
		res.AddDistinct(fmt.Sprintf("%x/%d/%d", s.Sched, nrep, len(conns)))
		mk := func(class, sig, detail string) {
			res.AddViolation(&Violation{Prop: "C26", Class: class, Sig: "C26|" + sig, Detail: detail, Seed: seed,
				Replay: map[string]interface{}{"engine": "repl-churn", "replicas": nrep, "knobs": w.Knobs, "preempt": w.Sim.PreemptPct}})
		}
		for _, p := range s.Panics {
			mk("task-panic", "task-panic|"+normMsg(fmt.Sprint(p.Panic))+" ["+stackFrames(p.Stack, 1)+"]", fmt.Sprintf("task %s panicked: %v [%s]", p.Name, firstLine(fmt.Sprint(p.Panic)), stackFrames(p.Stack, 3)))
		}
		if len(s.Panics) > 0 {
			return
		}
		if s.Err != nil {
			mk("hang", "hang|"+hangWho(s.Err.Error()), "run did not complete: "+s.Err.Error())
			return
		}
		if stuck > 0 {
			mk("writers-blocked", "writers-blocked", fmt.Sprintf("%d writer task(s) still blocked 60 virtual seconds after the last disconnect (%d of %d writes acknowledged)", stuck, writesOK, writesTotal))
			return
		}
		if spy == nil {
			return
		}
		// every connection that stayed up receives exactly the transactions fanned
		// out while it was registered, in commit order
		for _, c := range conns {
			res.Evals++
			var exp []int64
			for _, e := range spy.sent {
				if e.addrs[c.link.addr] {
					exp = append(exp, e.tgid)
				}
			}
			var got []int64
			for _, m := range c.link.recv {
				got = append(got, int64(binary.LittleEndian.Uint64(m)))
			}
			if verboseLog {
				var all []int64
				for _, e := range spy.sent {
					all = append(all, e.tgid-spy.sent[0].tgid)
				}
				fmt.Printf("  C26 conn %s slow=%v down=%v queued=%d sent(rel)=%v got=%v exp=%v\n", c.link.addr, c.link.sendDelay, c.link.down, len(c.link.queue), all, got, exp)
			}
			for i := 1; i < len(got); i++ {
				if got[i] <= got[i-1] {
					mk("out-of-order", "out-of-order", fmt.Sprintf("connection %s received transaction %d after %d", c.link.addr, got[i], got[i-1]))
					return
				}
			}
			// The spy samples the registered set just before the server takes its own
			// snapshot: a connection registering in between legitimately receives that
			// one transaction too. So: what was received is a gap-free run of the
			// commit sequence, it starts at most one transaction before the first
			// one the spy saw the connection registered for, and a connection that
			// stayed up received every transaction it was registered for.
			pos := map[int64]int{}
			for i, e := range spy.sent {
				pos[e.tgid] = i
			}
			for i, g := range got {
				p, ok := pos[g]
				if !ok {
					mk("unknown-transaction", "unknown-transaction", fmt.Sprintf("connection %s received transaction %d which the sender never fanned out", c.link.addr, g))
					return
				}
				if i > 0 && p != pos[got[i-1]]+1 {
					mk("gap", "gap", fmt.Sprintf("connection %s received transaction %d right after %d although %d transaction(s) were committed in between", c.link.addr, g, got[i-1], p-pos[got[i-1]]-1))
					return
				}
			}
			if len(exp) > 0 {
				first := pos[exp[0]]
				if len(got) > 0 && pos[got[0]] < first-1 {
					mk("extra-transactions", "extra-transactions", fmt.Sprintf("connection %s received transaction %d, committed %d transactions before it registered", c.link.addr, got[0], first-pos[got[0]]))
					return
				}
				have := map[int64]bool{}
				for _, g := range got {
					have[g] = true
				}
				for _, e := range exp {
					if !have[e] {
						if c.cut {
							break // everything after the cut is lost with the link
						}
						mk("missed-transactions", "missed-transactions", fmt.Sprintf("connection %s stayed connected but never received transaction %d, committed during its connection (%d of %d received)", c.link.addr, e, len(got), len(exp)))
						return
					}
				}
				if c.cut {
					// before the cut: no hole among the ones it did receive (checked above)
					continue
				}
			} else if len(got) > 1 {
				mk("extra-transactions", "extra-transactions", fmt.Sprintf("connection %s received %d transactions although the sender never saw it registered", c.link.addr, len(got)))
				return
			}
		}
		res.Sample(map[string]interface{}{"seed": seed, "replicas": nrep, "connections": len(conns), "transactions": len(spy.sent), "writes_acked": writesOK, "knobs": w.Knobs})
	}}
}

func init() {
	Engines["C25"] = c25Engine()
	Engines["C26"] = c26Engine()
}
