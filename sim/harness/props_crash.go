package harness

import (
	"time"

	"github.com/alpacahq/marketstore/v4/zzverif/simrt"
)

// coarse timeframes have small year files: all-time queries stay cheap, which
// matters because the CRASH engine runs them after every recovery.
var crashTFs = []string{"1H", "1H", "2H", "1D", "1D", "30Min", "15Min", "5Min"}

func crashGenCfg(r *simrt.Rand, tier string) *GenCfg {
	c := &GenCfg{
		TFs: crashTFs, MinBuckets: 1, MaxBuckets: 3, VarPct: 45,
		MinOps: 3, MaxOps: 14, MaxRows: 5, BigRowsPct: 6, MultiPct: 25,
		SleepPct: 22, RestartPct: 4, QueryPct: 5, PreCreate: r.Pct(50), AvoidKnown: true,
		Years: []int{2020, 2021, 2022}, BgSyncPct: 65, MaxSleep: 7 * time.Minute, HotPct: 70, UnsortedPct: 30,
	}
	if tier == "thorough" {
		c.MaxOps = 30
		c.MaxBuckets = 4
	}
	return c
}

// insertCrashOps splits the op list into lifetimes.
func insertCrashOps(w *Workload, r *simrt.Rand, lifetimes int) {
	if lifetimes <= 1 || len(w.Ops) < 4 {
		return
	}
	per := len(w.Ops) / lifetimes
	var ops []*WOp
	for i, o := range w.Ops {
		ops = append(ops, o)
		if (i+1)%per == 0 && i+1 < len(w.Ops) {
			ops = append(ops, &WOp{Kind: "crash"})
		}
	}
	w.Ops = ops
}

func crashEngine(prop string, power bool) *Engine {
	return &Engine{Name: "CRASH", Run: func(seed uint64, tier string, res *Result) {
		r := simrt.NewRand(seed ^ 0xC0FFEE)
		c := crashGenCfg(r, tier)
		if power {
			c.MaxOps = 9
			if tier == "thorough" {
				c.MaxOps = 16
			}
		}
		w := Gen(seed, c)
		if power && r.Pct(75) && c.PreCreate {
			// buckets created long ago: a global sync after setup
			n := 0
			for n < len(w.Ops) && w.Ops[n].Kind == "create" {
				n++
			}
			ops := append([]*WOp{}, w.Ops[:n]...)
			ops = append(ops, &WOp{Kind: "syncfs"})
			w.Ops = append(ops, w.Ops[n:]...)
		}
		lifetimes := 1 + r.Intn(3)
		insertCrashOps(w, r, lifetimes)
		p := CrashParams{Prop: prop, Power: power, Lifetimes: lifetimes}
		if power {
			p.RandomSets = 3
			if tier == "thorough" {
				p.RandomSets = 12
			}
		}
		if tier == "quick" {
			p.MaxK = 400
			if power {
				p.MaxK = 60
			}
		}
		RunCrashHistory(w, p, res)
	}}
}

func init() {
	Engines["C01"] = crashEngine("C01", false)
	Engines["C02"] = crashEngine("C02", false)
	Engines["C03"] = crashEngine("C03", false)
	Engines["C04"] = crashEngine("C04", true)
}
