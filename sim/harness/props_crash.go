package harness

import (
	"fmt"
	"time"

	"github.com/alpacahq/marketstore/v4/zzverif/simrt"
)

// coarse timeframes have small year files: all-time queries stay cheap, which
// matters because the CRASH engine runs them after every recovery.
var crashTFs = []string{"1H", "1H", "2H", "1D", "1D", "30Min", "15Min", "5Min"}

func crashGenCfg(r *simrt.Rand, tier string) *GenCfg {
	c := &GenCfg{
		TFs: crashTFs, MinBuckets: 1, MaxBuckets: 3, VarPct: 45,
		MinOps: 3, MaxOps: 14, MaxRows: 5, BigRowsPct: 6, MultiPct: 25,
		SleepPct: 22, RestartPct: 4, QueryPct: 5, PreCreate: r.Pct(50), AvoidKnown: true,
		Years: []int{2020, 2021, 2022}, BgSyncPct: 65, MaxSleep: 7 * time.Minute, HotPct: 70, UnsortedPct: 30,
	}
	if tier == "thorough" {
		c.MaxOps = 30
		c.MaxBuckets = 4
	}
	return c
}

// insertCrashOps splits the op list into lifetimes.
func insertCrashOps(w *Workload, r *simrt.Rand, lifetimes int) {
	if lifetimes <= 1 || len(w.Ops) < 4 {
		return
	}
	per := len(w.Ops) / lifetimes
	var ops []*WOp
	for i, o := range w.Ops {
		ops = append(ops, o)
		if (i+1)%per == 0 && i+1 < len(w.Ops) {
			ops = append(ops, &WOp{Kind: "crash"})
		}
	}
	w.Ops = ops
}

func crashEngine(prop string, power bool) *Engine {
	return &Engine{Name: "CRASH", Run: func(seed uint64, tier string, res *Result) {
		r := simrt.NewRand(seed ^ 0xC0FFEE)
		c := crashGenCfg(r, tier)
		power := power
		if prop == "C03" && r.Pct(35) {
			// C03 also quantifies over the power-loss model: a third of its histories
			// are judged on power-loss images (drops and tears of un-synced data)
			power = true
		}
		if power {
			c.MaxOps = 9
			if tier == "thorough" {
				c.MaxOps = 16
			}
		}
		w := Gen(seed, c)
		if power && r.Pct(75) && c.PreCreate {
			// buckets created long ago: a global sync after setup
			n := 0
			for n < len(w.Ops) && w.Ops[n].Kind == "create" {
				n++
			}
			ops := append([]*WOp{}, w.Ops[:n]...)
			ops = append(ops, &WOp{Kind: "syncfs"})
			w.Ops = append(ops, w.Ops[n:]...)
		}
		if r.Pct(25) && len(w.Ops) >= 3 {
			// make sure the WAL is rotated (checkpoint + Truncate(0) + new status
			// header) in the middle of the history: rotate at every checkpoint, and
			// one pause just over the 5-minute checkpoint period after an early write,
			// so that acknowledged writes follow the rotation and precede the next
			// checkpoint
			w.Node.BackgroundSync = true
			w.Node.WALRotateInterval = 1
			at := -1
			for i, o := range w.Ops {
				if o.Kind == "write" && i < len(w.Ops)-1 {
					at = i
					if r.Pct(60) {
						break
					}
				}
			}
			if at >= 0 {
				ops := append([]*WOp{}, w.Ops[:at+1]...)
				ops = append(ops, &WOp{Kind: "sleep", D: 5*time.Minute + time.Duration(1+r.Intn(20000))*time.Millisecond})
				w.Ops = append(ops, w.Ops[at+1:]...)
				res.Count("history-with-forced-wal-rotation", 1)
			}
		}
		lifetimes := 1 + r.Intn(3)
		insertCrashOps(w, r, lifetimes)
		if r.Pct(20) {
			// in the last lifetime a bucket is destroyed and created again under the
			// same key with another schema, then written to (Destroy is not logged in
			// the WAL: what does recovery do with the old incarnation's transactions?)
			old := w.Buckets[r.Intn(len(w.Buckets))]
			nb := &Bucket{Sym: old.Sym, TF: old.TF, Attr: old.Attr, Variable: old.Variable, Cols: []Col{{Name: "Id", Typ: "i8"}}}
			for j, nx := 0, 1+r.Intn(3); j < nx; j++ {
				nb.Cols = append(nb.Cols, Col{Name: fmt.Sprintf("R%d", j), Typ: []string{"f4", "f8", "i4", "i8"}[r.Intn(4)]})
			}
			if r.Pct(40) {
				w.Ops = append(w.Ops, &WOp{Kind: "sleep", D: time.Duration(r.Intn(400)) * time.Second})
			}
			w.Ops = append(w.Ops, &WOp{Kind: "destroy", Key: old.Key()})
			if r.Pct(30) {
				w.Ops = append(w.Ops, &WOp{Kind: "sleep", D: time.Duration(r.Intn(400)) * time.Second})
			}
			w.Ops = append(w.Ops, &WOp{Kind: "create", B: nb})
			base := time.Date(2021, 7, 1, 0, 0, 0, 0, time.UTC).UnixNano()
			for k, nw := 0, 1+r.Intn(3); k < nw; k++ {
				var recs []Rec
				for i, nr := 0, 1+r.Intn(3); i < nr; i++ {
					t := base + int64(k*10+i)*int64(nb.TFDur()) + int64(r.Intn(1000))
					if !nb.Variable {
						t = floorDiv(t, 1e9) * 1e9
					}
					recs = append(recs, Rec{T: t, ID: int64(800000 + k*100 + i)})
				}
				w.Ops = append(w.Ops, &WOp{Kind: "write", W: []*WriteReq{{Variable: nb.Variable, Parts: []*BucketWrite{{B: nb, Recs: recs}}}}})
			}
			res.Count("bucket-destroyed-and-recreated", 1)
		}
		p := CrashParams{Prop: prop, Power: power, Lifetimes: lifetimes}
		if power {
			p.RandomSets = 3
			if tier == "thorough" {
				p.RandomSets = 12
			}
		}
		if tier == "quick" {
			p.MaxK = 400
			if power {
				p.MaxK = 60
			}
		}
		RunCrashHistory(w, p, res)
	}}
}

func init() {
	Engines["C01"] = crashEngine("C01", false)
	Engines["C02"] = crashEngine("C02", false)
	Engines["C03"] = crashEngine("C03", false)
	Engines["C04"] = crashEngine("C04", true)
}
