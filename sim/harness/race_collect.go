package harness

import (
	"fmt"
	"os"
	"regexp"
	"sort"
	"strings"
)

// Race-detector build only (simrt.RaceBuild): after every seed the worker
// reads what the Go race runtime appended to its log (GORACE=log_path=...),
// and turns each report whose two conflicting accesses are both made by
// marketstore code into a violation of the property being checked. The
// identity of a race is the unordered pair of the innermost marketstore
// functions of the two access stacks.

const msPrefix = "github.com/alpacahq/marketstore/v4/"

var raceLogOff int64

// runTag is appended to the signature of races found in the current seed: the
// SCHED engines set "|cold-start" for runs in which clients start before the
// background WAL writer task has run (the inline flushes of such a run execute
// the whole flush path on two goroutines at once — one known root cause with an
// open-ended family of racing pairs).
var runTag string

// raceScope: for a property whose subject is one component, only races with
// at least one access inside that package count (the others belong to C18).
var raceScope = map[string]string{"C26": "replication."}

func raceLogFile() string {
	for _, kv := range strings.Fields(os.Getenv("GORACE")) {
		if strings.HasPrefix(kv, "log_path=") {
			return fmt.Sprintf("%s.%d", strings.TrimPrefix(kv, "log_path="), os.Getpid())
		}
	}
	return ""
}

type raceFrame struct{ fn, loc string }

type raceReport struct {
	kinds  [2]string
	stacks [2][]raceFrame
	text   string
}

func parseRaceReports(txt string) []raceReport {
	var out []raceReport
	parts := strings.Split(txt, "WARNING: DATA RACE\n")
	for _, p := range parts[1:] {
		if i := strings.Index(p, "=================="); i >= 0 {
			p = p[:i]
		}
		blocks := strings.Split(p, "\n\n")
		if len(blocks) < 2 {
			continue
		}
		var r raceReport
		r.text = p
		for bi := 0; bi < 2; bi++ {
			lines := strings.Split(blocks[bi], "\n")
			if len(lines) == 0 {
				continue
			}
			k := strings.ToLower(lines[0])
			k = strings.TrimPrefix(k, "previous ")
			if i := strings.Index(k, " at "); i >= 0 {
				k = k[:i]
			}
			r.kinds[bi] = k
			for i := 1; i < len(lines); i++ {
				l := lines[i]
				if strings.HasPrefix(l, "  ") && !strings.HasPrefix(l, "    ") {
					f := raceFrame{fn: strings.TrimSpace(l)}
					if i+1 < len(lines) {
						f.loc = strings.Fields(strings.TrimSpace(lines[i+1]) + " x")[0]
					}
					r.stacks[bi] = append(r.stacks[bi], f)
				}
			}
		}
		out = append(out, r)
	}
	return out
}

var shapeRE = regexp.MustCompile(`\[go\.shape[^\]]*\]`)

// raceOwner returns the innermost marketstore function of an access stack,
// or "" if a simulator/harness frame lies between the access and marketstore
// code (the access then belongs to the simulator's own state).
func raceOwner(st []raceFrame) string {
	for _, f := range st {
		if !strings.HasPrefix(f.fn, msPrefix) {
			continue // runtime, standard library, third-party library called by somebody below
		}
		if strings.Contains(f.fn, "/zzverif/") {
			return ""
		}
		fn := strings.TrimPrefix(f.fn, msPrefix)
		fn = shapeRE.ReplaceAllString(fn, "")
		fn = strings.TrimSuffix(fn, "()")
		return fn
	}
	return ""
}

func collectRaces(res *Result, prop string, seed uint64) {
	path := raceLogFile()
	if path == "" {
		return
	}
	f, err := os.Open(path)
	if err != nil {
		return // nothing reported yet
	}
	defer f.Close()
	st, err := f.Stat()
	if err != nil || st.Size() <= raceLogOff {
		return
	}
	buf := make([]byte, st.Size()-raceLogOff)
	if _, err := f.ReadAt(buf, raceLogOff); err != nil {
		return
	}
	raceLogOff = st.Size()
	seen := map[string]bool{}
	for _, r := range parseRaceReports(string(buf)) {
		res.Count("race-reports", 1)
		a, b := raceOwner(r.stacks[0]), raceOwner(r.stacks[1])
		if a == "" || b == "" {
			res.Count("race-reports-simulator-state", 1)
			continue
		}
		if sc := raceScope[prop]; sc != "" && !strings.HasPrefix(a, sc) && !strings.HasPrefix(b, sc) {
			res.Count("race-reports-outside-property-scope", 1)
			continue
		}
		pair := []string{a, b}
		sort.Strings(pair)
		sig := prop + "|data-race|" + pair[0] + " <-> " + pair[1] + runTag
		if seen[sig] {
			continue
		}
		seen[sig] = true
		res.Count("race-reports-marketstore", 1)
		text := r.text
		if len(text) > 2500 {
			text = text[:2500]
		}
		res.AddViolation(&Violation{Prop: prop, Class: "data-race", Sig: sig, Seed: seed,
			Detail: fmt.Sprintf("data race (%s by %s at %s / %s by %s at %s): the two accesses are not ordered by any lock, channel, WaitGroup, Once, atomic or go statement of the server's own",
				r.kinds[0], a, firstLoc(r.stacks[0]), r.kinds[1], b, firstLoc(r.stacks[1])),
			Replay: map[string]interface{}{"engine": "race", "race": true, "report": text}})
	}
}

func firstLoc(st []raceFrame) string {
	for _, f := range st {
		if strings.HasPrefix(f.fn, msPrefix) && !strings.Contains(f.fn, "/zzverif/") {
			loc := f.loc
			// keep the path inside the repository, whatever checkout was built:
			// the function's package path tells where that starts
			pkg := strings.TrimPrefix(f.fn, msPrefix)
			if i := strings.Index(pkg, "."); i >= 0 {
				pkg = pkg[:i]
			}
			if i := strings.LastIndex(loc, "/"+pkg+"/"); i >= 0 {
				loc = loc[i+1:]
			}
			return loc
		}
	}
	return "?"
}
