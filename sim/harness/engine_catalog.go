package harness

import (
	"fmt"
	"sort"
	"strings"
	"time"

	"github.com/alpacahq/marketstore/v4/catalog"
	"github.com/alpacahq/marketstore/v4/frontend"
	"github.com/alpacahq/marketstore/v4/utils/io"
	"github.com/alpacahq/marketstore/v4/zzverif/simos"
	"github.com/alpacahq/marketstore/v4/zzverif/simrt"
)

// ---------------------------------------------------------------------------
// C16: no request touches files outside the data root (simulated-disk guard).
// C17: catalog consistent with disk, sequentially and after concurrency.
// ---------------------------------------------------------------------------

var hostileComps = []string{"..", ".", "", "../..", "../../outside", "...", "~", "AAPL", "x/..", "..%2f", " ", "-", "outside",
	"../outside/dir", "../../../../../../tmp", "a..b", strings.Repeat("L", 300),
	// siblings of the root whose names begin with the root's own name (a check
	// of the resolved path by string prefix lets them through)
	"../data.bak", "../data2", "../data_old/dir", "../../data.bak", "../data.bak/dir", "data.bak", "data2", "data_old"}

func rawCreate(n *Node, key, cats string) error {
	return guard(func() error {
		req := frontend.CreateRequest{Key: key + ":" + cats, ColumnNames: []string{"Id", "V"}, ColumnTypes: []string{"i8", "f4"}}
		var resp frontend.MultiServerResponse
		if err := n.DS.Create(nil, &frontend.MultiCreateRequest{Requests: []frontend.CreateRequest{req}}, &resp); err != nil {
			return &APIError{Msg: err.Error()}
		}
		for _, r := range resp.Responses {
			if r.Error != "" {
				return &APIError{Msg: r.Error}
			}
		}
		return nil
	})
}

func rawWrite(n *Node, key, cats string, t int64) error {
	return guard(func() error {
		cs := io.NewColumnSeries()
		cs.AddColumn("Epoch", []int64{t / 1e9})
		cs.AddColumn("Id", []int64{1})
		cs.AddColumn("V", []float32{1.5})
		nds, err := io.NewNumpyDataset(cs)
		if err != nil {
			return &APIError{Msg: "client: " + err.Error()}
		}
		nmds, err := io.NewNumpyMultiDataset(nds, *io.NewTimeBucketKey(key, cats))
		if err != nil {
			return &APIError{Msg: "client: " + err.Error()}
		}
		var resp frontend.MultiServerResponse
		if err := n.DS.Write(nil, &frontend.MultiWriteRequest{Requests: []frontend.WriteRequest{{Data: nmds}}}, &resp); err != nil {
			return &APIError{Msg: err.Error()}
		}
		for _, r := range resp.Responses {
			if r.Error != "" {
				return &APIError{Msg: r.Error}
			}
		}
		return nil
	})
}

func rawQuery(n *Node, key, cats string) error {
	return guard(func() error {
		var resp frontend.MultiQueryResponse
		if err := n.DS.Query(nil, &frontend.MultiQueryRequest{Requests: []frontend.QueryRequest{{Destination: key, KeyCategory: cats}}}, &resp); err != nil {
			return &APIError{Msg: err.Error()}
		}
		return nil
	})
}

func rawDestroy(n *Node, key, cats string) error {
	return guard(func() error {
		k := key
		if cats != "" {
			k += ":" + cats
		}
		var resp frontend.MultiServerResponse
		if err := n.DS.Destroy(nil, &frontend.MultiKeyRequest{Requests: []frontend.KeyRequest{{Key: k}}}, &resp); err != nil {
			return &APIError{Msg: err.Error()}
		}
		for _, r := range resp.Responses {
			if r.Error != "" {
				return &APIError{Msg: r.Error}
			}
		}
		return nil
	})
}

func compClass(c string) string {
	switch {
	case c == "":
		return "empty"
	case c == ".":
		return "dot"
	case strings.Contains(c, ".."):
		return "dotdot"
	case len(c) > 100:
		return "long"
	case strings.ContainsAny(c, "/ ~%"):
		return "odd"
	}
	return "plain"
}

// catsClass summarises a category list: standard, permuted, repeated names, hostile names.
func catsClass(cats string) string {
	seen := map[string]int{}
	odd := false
	for _, c := range strings.Split(cats, "/") {
		seen[c]++
		if c != "Symbol" && c != "Timeframe" && c != "AttributeGroup" && c != "Extra" {
			odd = true
		}
	}
	rep := false
	for _, n := range seen {
		if n > 1 {
			rep = true
		}
	}
	switch {
	case odd:
		return "odd-categories"
	case rep:
		return "repeated-categories"
	case cats == "Symbol/Timeframe/AttributeGroup":
		return "standard"
	}
	return "permuted"
}

func c16Engine() *Engine {
	return &Engine{Name: "MODEL", Run: func(seed uint64, tier string, res *Result) {
		r := simrt.NewRand(seed ^ 0x1616)
		fs := simos.New()
		fs.MkdirAll(dataRoot, 0o755)
		fs.MkdirAll("/outside/dir/1Min/OHLCV", 0o755)
		fs.MkdirAll("/tmp", 0o755)
		fs.MkdirAll("/data.bak/dir/1Min/OHLCV", 0o755)
		fs.MkdirAll("/data2", 0o755)
		fs.MkdirAll("/data_old/dir", 0o755)
		simos.Cur = fs
		for _, p := range []string{"/outside/victim.txt", "/outside/dir/1Min/OHLCV/2021.bin", "/outside/dir/category_name", "/victim2",
			"/data.bak/category_name", "/data.bak/dir/category_name", "/data.bak/dir/1Min/OHLCV/2021.bin", "/data2/keep", "/data_old/dir/keep"} {
			f, _ := fs.OpenFile(p, 0x42, 0o644) // O_RDWR|O_CREAT
			f.Write([]byte("precious"))
			f.Close()
		}
		outsideBefore := fs.Hash("/outside") ^ fs.Hash("/tmp") ^ fs.Hash("/victim2") ^ fs.Hash("/data.bak") ^ fs.Hash("/data2") ^ fs.Hash("/data_old")
		fs.GuardRoots = []string{dataRoot}
		fs.Record = true
		applyKnobs(map[string]int{"WriteChannelCommandDepth": 4096})
		res.Runs++
		nops := 6 + r.Intn(10)
		type opRec struct{ kind, key, cats, err string }
		var done []opRec
		catsChoices := []string{"Symbol/Timeframe/AttributeGroup", "Symbol/Timeframe/AttributeGroup", "Timeframe/Symbol/AttributeGroup",
			"Symbol/Extra/Timeframe/AttributeGroup", "Symbol/Timeframe/AttributeGroup/Extra", "AttributeGroup/Timeframe/Symbol"}
		s := simrt.Run(simrt.Config{Seed: seed, ShuffleMap: true}, func() {
			n, err := StartNode(dataRoot, NodeOpts{BackgroundSync: r.Pct(50)})
			if err != nil {
				res.Harness("seed %d: start failed: %v", seed, err)
				return
			}
			// one well-formed bucket so that the catalog is not empty
			rawCreate(n, "GOOD/1Min/OHLCV", "Symbol/Timeframe/AttributeGroup")
			for i := 0; i < nops; i++ {
				cats := catsChoices[r.Intn(len(catsChoices))]
				if r.Pct(45) {
					// free-form category list: 2-8 names, repeats allowed (a repeated
					// category name makes GetItemInCategory ambiguous), occasionally a
					// hostile name; the key gets one item per category below
					nc := 2 + r.Intn(7)
					var cl []string
					for j := 0; j < nc; j++ {
						if r.Pct(6) {
							cl = append(cl, []string{"..", ".", "a b", "Symbol "}[r.Intn(4)])
						} else {
							cl = append(cl, []string{"Symbol", "Timeframe", "AttributeGroup", "Timeframe", "Symbol", "Extra"}[r.Intn(6)])
						}
					}
					cats = strings.Join(cl, "/")
				}
				ncomp := len(strings.Split(cats, "/"))
				comps := make([]string, ncomp)
				seenTF := false
				for j, cn := range strings.Split(cats, "/") {
					switch cn {
					case "Timeframe":
						comps[j] = []string{"1Min", "1Min", "1H", "1D"}[r.Intn(4)]
						if r.Pct(8) || (seenTF && r.Pct(70)) {
							comps[j] = hostileComps[r.Intn(len(hostileComps))]
						}
						seenTF = true
					default:
						if r.Pct(65) {
							comps[j] = hostileComps[r.Intn(len(hostileComps))]
						} else {
							comps[j] = []string{"AAPL", "OHLCV", "dir", "outside"}[r.Intn(4)]
						}
					}
				}
				if catsClass(cats) == "repeated-categories" && r.Pct(50) {
					// a validator that looks items up by category name sees only the item
					// of the FIRST category of that name: plain items there, climbing
					// items under the repeats
					first := map[string]bool{}
					for j, cn := range strings.Split(cats, "/") {
						if !first[cn] {
							first[cn] = true
							if cn == "Timeframe" {
								comps[j] = []string{"1Min", "1H", "1D"}[r.Intn(3)]
							} else {
								comps[j] = []string{"AAPL", "OHLCV", "dir", "outside", "escaped"}[r.Intn(5)]
							}
						} else {
							comps[j] = []string{"..", "..", "..", "../..", ".", "outside", "dir"}[r.Intn(7)]
						}
					}
				}
				if len(comps) >= 4 && r.Pct(12) {
					// climb out of the root and continue into a sibling whose name starts
					// with the root's name, one item per category
					comps[0] = ".."
					comps[1] = []string{"data.bak", "data2", "data_old"}[r.Intn(3)]
					if r.Pct(50) {
						comps[2] = []string{"dir", "AAPL", "MSFT"}[r.Intn(3)]
					}
				}
				if r.Pct(8) {
					// a key that resolves to a bucket directory that EXISTS outside the root
					// (a neighbouring instance's data): code that looks at the target before
					// it validates the key behaves differently there
					cats = []string{"Up/Host/Symbol/Timeframe/AttributeGroup", "Extra/Extra/Symbol/Timeframe/AttributeGroup", "Symbol/Extra/Extra/Timeframe/AttributeGroup"}[r.Intn(3)]
					comps = []string{"..", []string{"outside", "data.bak"}[r.Intn(2)], "dir", "1Min", "OHLCV"}
					ncomp = 5
				}
				if r.Pct(5) && len(comps) > 1 {
					comps = comps[:len(comps)-1] // fewer items than categories
				} else if r.Pct(5) {
					comps = append(comps, hostileComps[r.Intn(len(hostileComps))]) // more items than categories
				}
				key := strings.Join(comps, "/")
				var kind string
				var e error
				before := len(fs.Refused)
				switch r.Intn(4) {
				case 0:
					kind = "create"
					e = rawCreate(n, key, cats)
				case 1:
					kind = "write"
					e = rawWrite(n, key, cats, yearStart(2021)+int64(r.Intn(300))*24*int64(time.Hour))
				case 2:
					kind = "query"
					e = rawQuery(n, key, cats)
				default:
					kind = "destroy"
					e = rawDestroy(n, key, cats)
				}
				res.Evals++
				es := ""
				if e != nil {
					es = firstLine(e.Error())
				}
				done = append(done, opRec{kind, key, cats, es})
				var cls []string
				for _, c := range comps {
					cls = append(cls, compClass(c))
				}
				res.AddDistinct(kind + "/" + strings.Join(cls, ",") + "/" + fmt.Sprint(ncomp) + "/" + catsClass(cats))
				if ae, ok := e.(*APIError); ok && ae.Panic {
					// C16 is about what a request does to the file system, not about how
					// it fails: a handler that panics on a malformed key (fewer items
					// than categories → index out of range in TimeBucketKey) is counted,
					// not judged
					res.Count("request-panicked-on-malformed-key", 1)
				}
				if len(fs.Refused) > before {
					ro := fs.Refused[before]
					res.AddViolation(&Violation{Prop: "C16", Class: "outside-root", Seed: seed,
						Sig:    fmt.Sprintf("C16|outside-root|%s|%s@%s", kind, ro.Note, ro.Site),
						Detail: fmt.Sprintf("%s with key %q (categories %s) attempted %s of %s, outside the root %s (refused by the simulated disk; %s)", kind, clip(key), cats, ro.Note, clip(ro.Path), dataRoot, ro.Site),
						Replay: map[string]interface{}{"engine": "model", "ops": done}})
				}
			}
		})
		res.SimSeconds += s.VirtualElapsed().Seconds()
		if s.Err != nil {
			res.AddViolation(&Violation{Prop: "C16", Class: "hang", Sig: "C16|hang|" + normMsg(s.Err.Error()), Seed: seed, Detail: s.Err.Error()})
		}
		if h := fs.Hash("/outside") ^ fs.Hash("/tmp") ^ fs.Hash("/victim2") ^ fs.Hash("/data.bak") ^ fs.Hash("/data2") ^ fs.Hash("/data_old"); h != outsideBefore {
			res.AddViolation(&Violation{Prop: "C16", Class: "outside-changed", Sig: "C16|outside-changed", Seed: seed,
				Detail: "files outside the root changed although the guard refused nothing: the guard missed an operation"})
		}
		res.Sample(map[string]interface{}{"seed": seed, "ops": done})
	}}
}

// ---- C17 ----

type catState struct {
	live, fresh, disk    []string
	liveYears, diskYears map[string][]string
}

func diskBuckets(fs *simos.FS) ([]string, map[string][]string) {
	var out []string
	years := map[string][]string{}
	for _, p := range fs.Walk(dataRoot) {
		if !strings.HasSuffix(p, ".bin") {
			continue
		}
		rel := strings.TrimPrefix(p, dataRoot+"/")
		parts := strings.Split(rel, "/")
		if len(parts) != 4 {
			continue
		}
		key := strings.Join(parts[:3], "/")
		if len(years[key]) == 0 {
			out = append(out, key)
		}
		years[key] = append(years[key], strings.TrimSuffix(parts[3], ".bin"))
	}
	sort.Strings(out)
	return out, years
}

func catalogYears(d *catalog.Directory) (map[string][]string, error) {
	out := map[string][]string{}
	tbis, err := d.GatherTimeBucketInfo()
	if err != nil {
		return nil, err
	}
	for _, t := range tbis {
		rel := strings.TrimPrefix(t.Path, dataRoot+"/")
		parts := strings.Split(rel, "/")
		if len(parts) != 4 {
			continue
		}
		key := strings.Join(parts[:3], "/")
		out[key] = append(out[key], strings.TrimSuffix(parts[3], ".bin"))
	}
	for k := range out {
		sort.Strings(out[k])
	}
	return out, nil
}

func sameSet(a, b []string) bool {
	if len(a) != len(b) {
		return false
	}
	for i := range a {
		if a[i] != b[i] {
			return false
		}
	}
	return true
}

// checkCatalog compares what the live server lists with the disk and with a
// fresh catalog loaded from the same disk.
func checkCatalog(n *Node, fs *simos.FS, res *Result, seed uint64, when string, ops []string) bool {
	res.Evals++
	viol := func(class, sig, detail string) bool {
		if strings.HasPrefix(when, "quiescent") {
			// concurrent mode: one signature per kind of disagreement
			// ... plus whether the concurrent history destroyed a bucket (the known
			// Destroy races are the only way the unchanged server gets here)
			hist := "no-destroy"
			for _, o := range ops {
				if strings.Contains(o, "destroy") {
					hist = "with-destroy"
				}
			}
			sig = "conc|catalog-mismatch|" + class + "|" + hist
		} else {
			sig = "seq|" + sig
		}
		res.AddViolation(&Violation{Prop: "C17", Class: class, Sig: "C17|" + sig, Detail: detail, Seed: seed,
			Replay: map[string]interface{}{"engine": "catalog", "ops": ops}})
		return false
	}
	live, err := n.ListTBK()
	if err != nil {
		return viol("list-error", "list-error|"+when+"|"+normMsg(err.Error()), when+": listing fails: "+firstLine(err.Error()))
	}
	disk, dyears := diskBuckets(fs)
	var fresh []string
	var fyears map[string][]string
	ferr := guard(func() error {
		d, e := catalog.NewDirectory(dataRoot)
		if e != nil && d == nil {
			return e
		}
		fresh = catalog.ListTimeBucketKeyNames(d)
		sort.Strings(fresh)
		var e2 error
		fyears, e2 = catalogYears(d)
		return e2
	})
	if ferr != nil {
		if len(disk) == 0 {
			return true
		}
		return viol("fresh-load-error", "fresh-load-error|"+when+"|"+normMsg(ferr.Error()), when+": a fresh catalog cannot be loaded from the disk: "+firstLine(ferr.Error()))
	}
	if !sameSet(live, disk) {
		return viol("live-vs-disk", "live-vs-disk|"+when+"|"+setDiff(live, disk), fmt.Sprintf("%s: the server lists %v but the disk holds %v", when, live, disk))
	}
	if !sameSet(fresh, disk) {
		return viol("fresh-vs-disk", "fresh-vs-disk|"+when+"|"+setDiff(fresh, disk), fmt.Sprintf("%s: a fresh restart lists %v but the disk holds %v", when, fresh, disk))
	}
	lyears, err2 := catalogYears(n.Cat)
	if err2 != nil {
		return viol("years-error", "years-error|"+when, when+": "+err2.Error())
	}
	// the catalog is consistent with itself: every bucket it lists can be looked
	// up by its key (the write path does exactly that, and treats a failed lookup
	// as "bucket does not exist yet")
	for _, k := range live {
		var lerr error
		if ge := guard(func() error {
			_, lerr = n.Cat.GetLatestTimeBucketInfoFromKey(io.NewTimeBucketKey(k))
			return nil
		}); ge != nil {
			lerr = ge
		}
		if lerr != nil {
			return viol("live-lookup-fails", "live-lookup-fails|"+when, fmt.Sprintf("%s: the server lists bucket %s but cannot look it up by key: %s", when, k, firstLine(lerr.Error())))
		}
	}
	for _, k := range disk {
		sort.Strings(dyears[k])
		if !sameSet(lyears[k], dyears[k]) {
			return viol("live-years-vs-disk", "live-years-vs-disk|"+when, fmt.Sprintf("%s: bucket %s: the server knows year files %v, the disk holds %v", when, k, lyears[k], dyears[k]))
		}
		if !sameSet(fyears[k], dyears[k]) {
			return viol("fresh-years-vs-disk", "fresh-years-vs-disk|"+when, fmt.Sprintf("%s: bucket %s: a fresh restart knows year files %v, the disk holds %v", when, k, fyears[k], dyears[k]))
		}
	}
	return true
}

func setDiff(a, b []string) string {
	am := map[string]bool{}
	for _, x := range a {
		am[x] = true
	}
	bm := map[string]bool{}
	for _, x := range b {
		bm[x] = true
	}
	extra, missing := 0, 0
	for x := range am {
		if !bm[x] {
			extra++
		}
	}
	for x := range bm {
		if !am[x] {
			missing++
		}
	}
	s := ""
	if extra > 0 {
		s += "lists-nonexistent"
	}
	if missing > 0 {
		s += "omits-existing"
	}
	return s
}

func modeOf(concurrent bool) string {
	if concurrent {
		return "conc"
	}
	return "seq"
}

// c17Cause folds the many surface forms of the catalog's concurrency failures
// into a few causes (the stable part of a signature).
func c17Cause(msg, stack string) string {
	switch {
	case strings.Contains(msg, "no such file or directory"):
		return "removed-file"
	case strings.Contains(msg, "divide by zero"):
		return "zero-timeframe"
	case strings.Contains(msg, "Failed attempt to write to WAL"), strings.Contains(stack, "wal.ReadStatus"), strings.Contains(stack, "readStatus"):
		return "wal-gone"
	}
	return normMsg(msg) + " [" + stackFrames(stack, 1) + "]"
}

func c17Engine() *Engine {
	return &Engine{Name: "MODEL+SCHED", Run: func(seed uint64, tier string, res *Result) {
		r := simrt.NewRand(seed ^ 0x1717)
		fs := simos.New()
		fs.MkdirAll(dataRoot, 0o755)
		simos.Cur = fs
		applyKnobs(map[string]int{"WriteChannelCommandDepth": 4096})
		res.Runs++
		syms := []string{"A", "B"}
		tfs := []string{"1Min", "1H"}
		attrs := []string{"X", "Y"}
		if r.Pct(50) {
			// names one of which is a prefix of the other (path-prefix confusions)
			syms = []string{"A", "AB"}
			attrs = []string{"X", "XY"}
		}
		schemas := [][]Col{{{Name: "Id", Typ: "i8"}, {Name: "V", Typ: "f4"}}, {{Name: "Id", Typ: "i8"}, {Name: "W", Typ: "i4"}, {Name: "Z", Typ: "f8"}}}
		concurrent := r.Pct(50)
		nclients := 1
		if concurrent {
			nclients = 2 + r.Intn(3)
		}
		nops := 6 + r.Intn(14)
		if tier == "thorough" {
			nops += 20
		}
		cfg := simrt.Config{Seed: seed, ShuffleMap: true}
		if concurrent {
			cfg.PreemptPct = []int{2, 10, 30}[r.Intn(3)]
		}
		var ops []string
		ids := &idGen{}
		bg := r.Pct(60)
		hadPanic := false
		s := simrt.Run(cfg, func() {
			n, err := StartNode(dataRoot, NodeOpts{BackgroundSync: bg})
			if err != nil {
				res.Harness("seed %d: start failed: %v", seed, err)
				return
			}
			oneOp := func(cr *simrt.Rand, who int) {
				b := &Bucket{Sym: syms[cr.Intn(2)], TF: tfs[cr.Intn(2)], Attr: attrs[cr.Intn(2)]}
				b.Cols = schemas[cr.Intn(2)]
				var e error
				var d string
				switch cr.Intn(10) {
				case 0, 1, 2:
					d = "create " + b.Key() + fmt.Sprint(len(b.Cols))
					e = n.Create(b)
				case 3, 4, 5:
					y := 2020 + cr.Intn(4)
					d = fmt.Sprintf("write %s year %d", b.Key(), y)
					// write with whatever schema the bucket currently has on the server
					if inf, ie := n.GetInfo(b.Key()); ie == nil {
						b.Cols = inf.Cols
					}
					e = n.Write(&WriteReq{Parts: []*BucketWrite{{B: b, Recs: []Rec{{T: yearStart(y) + int64(1+cr.Intn(300))*24*int64(time.Hour), ID: ids.next()}}}}})
				case 6, 7:
					d = "destroy " + b.Key()
					e = n.Destroy(b.Key())
				case 8:
					d = "query " + b.Key()
					_, e = n.Query(&QuerySpec{Dest: b.Key()})
				default:
					d = "list"
					_, e = n.ListTBK()
				}
				es := "ok"
				if e != nil {
					es = "err: " + firstLine(e.Error())
					if ae, ok := e.(*APIError); ok && ae.Panic {
						hadPanic = true
						res.AddViolation(&Violation{Prop: "C17", Class: "request-panic", Sig: "C17|" + modeOf(concurrent) + "|panic|" + c17Cause(ae.Msg, ae.Stack), Seed: seed,
							Detail: fmt.Sprintf("client %d: %s panicked: %s [%s]", who, d, firstLine(ae.Msg), stackFrames(ae.Stack, 3)), Replay: map[string]interface{}{"ops": append([]string{}, ops...)}})
					}
				}
				ops = append(ops, fmt.Sprintf("c%d: %s -> %s", who, d, clip(es)))
			}
			if !concurrent {
				for i := 0; i < nops; i++ {
					oneOp(r, 0)
					if !checkCatalog(n, fs, res, seed, "sequential", ops) {
						return
					}
				}
				return
			}
			wg := &simrt.WaitGroup{}
			for c := 0; c < nclients; c++ {
				c := c
				cr := r.Fork()
				wg.Add(1)
				simrt.GoNamed(fmt.Sprintf("client%d", c), func() {
					defer wg.Done()
					for i := 0; i < nops/nclients+1; i++ {
						oneOp(cr, c)
					}
				})
			}
			wg.Wait()
			simrt.Sleep(2 * time.Second)
			checkCatalog(n, fs, res, seed, "quiescent-after-concurrency", ops)
		})
		res.SimSeconds += s.VirtualElapsed().Seconds()
		res.Count("switches", int64(s.Switch))
		res.Count("preemptions", int64(s.Preempt))
		res.Count("lock-contended", int64(s.Stats["lock-contended"]))
		res.AddDistinct(fmt.Sprintf("conc=%v/clients=%d/sched=%x", concurrent, nclients, s.Sched%100000))
		if s.Err != nil && !hadPanic && len(s.Panics) == 0 {
			// (after a panic the real process would be gone: a later hang is an artefact)
			hk := "deadlock"
			if strings.Contains(s.Err.Error(), "step cap") {
				hk = "spin"
			}
			res.AddViolation(&Violation{Prop: "C17", Class: "hang", Sig: "C17|" + modeOf(concurrent) + "|hang|" + hk, Seed: seed,
				Detail: "run did not complete: " + s.Err.Error(), Replay: map[string]interface{}{"ops": ops}})
		}
		for _, p := range s.Panics {
			res.AddViolation(&Violation{Prop: "C17", Class: "task-panic", Sig: "C17|" + modeOf(concurrent) + "|panic|" + c17Cause(fmt.Sprint(p.Panic), p.Stack), Seed: seed,
				Detail: fmt.Sprintf("task %s panicked: %v [%s]", p.Name, firstLine(fmt.Sprint(p.Panic)), stackFrames(p.Stack, 3)), Replay: map[string]interface{}{"ops": ops}})
		}
		res.Sample(map[string]interface{}{"seed": seed, "concurrent": concurrent, "clients": nclients, "ops": ops})
	}}
}

func init() {
	Engines["C16"] = c16Engine()
	Engines["C17"] = c17Engine()
}
