package harness

import (
	"fmt"
	"runtime/debug"
	"sort"
	"strings"
	"time"

	"github.com/alpacahq/marketstore/v4/frontend"
	"github.com/alpacahq/marketstore/v4/utils/io"
)

// Col is one value column of a bucket schema.
type Col struct {
	Name  string
	Typ   string // i1 i2 i4 i8 u1 u2 u4 u8 f4 f8
	Const bool   // padding column: the same value in every record (compressible)
}

// Bucket describes one time bucket as the client sees it.
type Bucket struct {
	Sym, TF, Attr string
	Cols          []Col
	Variable      bool
	// Overrides: record id -> column name -> value the bucket must hold, when it
	// is not the canonical derived value (writes sent with another numeric type)
	Overrides map[int64]map[string]interface{}
}

func (b *Bucket) Key() string { return b.Sym + "/" + b.TF + "/" + b.Attr }

// TFDur returns the timeframe duration.
func (b *Bucket) TFDur() time.Duration { return TFDurations[b.TF] }

// TFDurations lists the timeframes marketstore supports for storage.
var TFDurations = map[string]time.Duration{
	"1Sec": time.Second, "10Sec": 10 * time.Second, "30Sec": 30 * time.Second,
	"1Min": time.Minute, "5Min": 5 * time.Minute, "15Min": 15 * time.Minute, "30Min": 30 * time.Minute,
	"1H": time.Hour, "2H": 2 * time.Hour, "4H": 4 * time.Hour, "1D": 24 * time.Hour,
}

// Rec is one record a client writes: a timestamp and a unique id from which
// every column value is derived (so a row read back is attributable to exactly
// one write, and a row mixing columns of two writes is detectable).
type Rec struct {
	T  int64 // unix nanoseconds
	ID int64
}

// ColVal is the value of column j (type typ) of the record with this id.
func ColVal(id int64, j int, typ string, isID bool) interface{} {
	b := id*7 + int64(j)*13 + 1
	if isID {
		b = id
	}
	if wideValues && !isID {
		if v := wideVal(b, ((id+int64(j))%4+4)%4, typ); v != nil {
			return v
		}
	}
	switch typ {
	case "i1":
		return int8(b % 100)
	case "i2":
		return int16(b % 30000)
	case "i4":
		return int32(b % 2000000000)
	case "i8":
		return b
	case "u1":
		return uint8(b % 200)
	case "u2":
		return uint16(b % 60000)
	case "u4":
		return uint32(b % 4000000000)
	case "u8":
		return uint64(b)
	case "f4":
		return float32(b%1000000) + 0.5
	case "f8":
		return float64(b) + 0.25
	case "U16":
		// string16 (CSV import only): a short word derived from the id
		return Str16(fmt.Sprintf("m%dz", b%100000))
	}
	panic("harness: unknown column type " + typ)
}

// Str16 is the stored form of a string16 value.
func Str16(s string) [16]rune {
	var a [16]rune
	for i, c := range []rune(s) {
		if i >= 16 {
			break
		}
		a[i] = c
	}
	return a
}

// Str16Text renders a stored string16 value.
func Str16Text(a [16]rune) string {
	var sb strings.Builder
	for _, c := range a {
		if c == 0 {
			break
		}
		sb.WriteRune(c)
	}
	return sb.String()
}

// wideValues (C14): column values also come from the edges of each type's
// range — negative, top half of an unsigned range, extreme, fractional — so a
// conversion that is only wrong there is seen. Still a function of the id.
var wideValues bool

func wideVal(b, cls int64, typ string) interface{} {
	if cls == 0 {
		return nil // the ordinary small value
	}
	k := (b%1000 + 1000) % 1000 // ids read back from a corrupted row may be negative
	sgn := func(bits uint) int64 {
		max := int64(1)<<(bits-1) - 1
		switch cls {
		case 1:
			return -(k % (max/2 + 1)) - 1
		case 2:
			return max - k%3
		}
		return -max - 1 + k%3
	}
	uns := func(bits uint) uint64 {
		max := ^uint64(0) >> (64 - bits)
		switch cls {
		case 1:
			return max - uint64(k)%(max/4+1)
		case 2:
			return max/2 + 1 + uint64(k)%(max/4+1)
		}
		return max
	}
	switch typ {
	case "i1":
		return int8(sgn(8))
	case "i2":
		return int16(sgn(16))
	case "i4":
		return int32(sgn(32))
	case "i8":
		v := sgn(64)
		if float32(v) != float32(float64(v)) {
			return nil // direct and two-step rounding to float32 differ: not a value to judge with
		}
		return v
	case "u1":
		return uint8(uns(8))
	case "u2":
		return uint16(uns(16))
	case "u4":
		return uint32(uns(32))
	case "u8":
		v := uns(64)
		if float32(v) != float32(float64(v)) {
			return nil
		}
		return v
	case "f4":
		// non-negative and below 100: converting it to any integer type is defined
		return float32(k%100) + []float32{0, 0.25, 0.75, 0.999}[cls]
	case "f8":
		return float64(k%100) + []float64{0, 0.125, 0.875, 0.999999}[cls]
	}
	return nil
}

// bucketColVal is the value column j of bucket b holds for record id.
func bucketColVal(b *Bucket, id int64, j, idc int) interface{} {
	c := b.Cols[j]
	if c.Const {
		return Convert(int64(0), c.Typ)
	}
	return ColVal(id, j, c.Typ, j == idc)
}

func newSlice(typ string) interface{} {
	switch typ {
	case "i1":
		return []int8{}
	case "i2":
		return []int16{}
	case "i4":
		return []int32{}
	case "i8":
		return []int64{}
	case "u1":
		return []uint8{}
	case "u2":
		return []uint16{}
	case "u4":
		return []uint32{}
	case "u8":
		return []uint64{}
	case "f4":
		return []float32{}
	case "f8":
		return []float64{}
	}
	panic("harness: unknown column type " + typ)
}

func appendVal(sl interface{}, v interface{}) interface{} {
	switch s := sl.(type) {
	case []int8:
		return append(s, v.(int8))
	case []int16:
		return append(s, v.(int16))
	case []int32:
		return append(s, v.(int32))
	case []int64:
		return append(s, v.(int64))
	case []uint8:
		return append(s, v.(uint8))
	case []uint16:
		return append(s, v.(uint16))
	case []uint32:
		return append(s, v.(uint32))
	case []uint64:
		return append(s, v.(uint64))
	case []float32:
		return append(s, v.(float32))
	case []float64:
		return append(s, v.(float64))
	}
	panic("harness: bad slice")
}

func sliceLen(sl interface{}) int {
	switch s := sl.(type) {
	case []int8:
		return len(s)
	case []int16:
		return len(s)
	case []int32:
		return len(s)
	case []int64:
		return len(s)
	case []uint8:
		return len(s)
	case []uint16:
		return len(s)
	case []uint32:
		return len(s)
	case []uint64:
		return len(s)
	case []float32:
		return len(s)
	case []float64:
		return len(s)
	case []bool:
		return len(s)
	case [][16]rune:
		return len(s)
	}
	return -1
}

func sliceAt(sl interface{}, i int) interface{} {
	switch s := sl.(type) {
	case []int8:
		return s[i]
	case []int16:
		return s[i]
	case []int32:
		return s[i]
	case []int64:
		return s[i]
	case []uint8:
		return s[i]
	case []uint16:
		return s[i]
	case []uint32:
		return s[i]
	case []uint64:
		return s[i]
	case []float32:
		return s[i]
	case []float64:
		return s[i]
	case []bool:
		return s[i]
	case [][16]rune:
		return s[i]
	}
	return nil
}

// Convert performs Go's numeric conversion of v to the element type typ.
func Convert(v interface{}, typ string) interface{} {
	var f float64
	var i int64
	var u uint64
	kind := 0 // 0 int 1 uint 2 float
	switch x := v.(type) {
	case int8:
		i = int64(x)
	case int16:
		i = int64(x)
	case int32:
		i = int64(x)
	case int64:
		i = x
	case uint8:
		u, kind = uint64(x), 1
	case uint16:
		u, kind = uint64(x), 1
	case uint32:
		u, kind = uint64(x), 1
	case uint64:
		u, kind = x, 1
	case float32:
		f, kind = float64(x), 2
	case float64:
		f, kind = x, 2
	}
	switch typ {
	case "i1":
		return [3]interface{}{int8(i), int8(u), int8(f)}[kind]
	case "i2":
		return [3]interface{}{int16(i), int16(u), int16(f)}[kind]
	case "i4":
		return [3]interface{}{int32(i), int32(u), int32(f)}[kind]
	case "i8":
		return [3]interface{}{int64(i), int64(u), int64(f)}[kind]
	case "u1":
		return [3]interface{}{uint8(i), uint8(u), uint8(f)}[kind]
	case "u2":
		return [3]interface{}{uint16(i), uint16(u), uint16(f)}[kind]
	case "u4":
		return [3]interface{}{uint32(i), uint32(u), uint32(f)}[kind]
	case "u8":
		return [3]interface{}{uint64(i), uint64(u), uint64(f)}[kind]
	case "f4":
		return [3]interface{}{float32(i), float32(u), float32(f)}[kind]
	case "f8":
		return [3]interface{}{float64(i), float64(u), float64(f)}[kind]
	}
	panic("harness: unknown type " + typ)
}

// idCol returns the index of the i8 column named "Id" (-1 if none).
func (b *Bucket) idCol() int {
	for j, c := range b.Cols {
		if c.Name == "Id" && c.Typ == "i8" {
			return j
		}
	}
	return -1
}

// BucketWrite is the part of a write request addressed to one bucket.
type BucketWrite struct {
	B    *Bucket
	Recs []Rec
	// Cols overrides the columns sent (C14: missing/extra/renamed/reordered/
	// retyped); nil = the bucket's own columns in order. SrcIdx[j] tells which
	// bucket column the j-th sent column's values are derived from (-1: junk).
	Cols   []Col
	SrcIdx []int
	// SentNative: a retyped column's values are generated in the type that is
	// sent (so the whole range of that type is reachable), not derived from the
	// bucket column's value.
	SentNative bool
}

// sentVal is the value sent for record id in sent column c (derived from
// bucket column srcj).
func (bw *BucketWrite) sentVal(id int64, c Col, srcj, idc int) interface{} {
	if srcj < 0 {
		return Convert(int64(7), c.Typ)
	}
	bc := bw.B.Cols[srcj]
	if bw.SentNative && c.Typ != bc.Typ && srcj != idc && !bc.Const {
		return ColVal(id, srcj, c.Typ, false)
	}
	// the value the client means: derived in the *bucket* column's terms, then
	// expressed in the type the client sends
	return Convert(bucketColVal(bw.B, id, srcj, idc), c.Typ)
}

func (bw *BucketWrite) sentCols() ([]Col, []int) {
	if bw.Cols != nil {
		return bw.Cols, bw.SrcIdx
	}
	idx := make([]int, len(bw.B.Cols))
	for i := range idx {
		idx[i] = i
	}
	return bw.B.Cols, idx
}

// buildCS builds the column series a client would send.
func (bw *BucketWrite) buildCS() *io.ColumnSeries {
	cs := io.NewColumnSeries()
	ep := make([]int64, len(bw.Recs))
	ns := make([]int32, len(bw.Recs))
	for i, r := range bw.Recs {
		ep[i] = floorDiv(r.T, 1e9)
		ns[i] = int32(r.T - ep[i]*1e9)
	}
	cs.AddColumn("Epoch", ep)
	cols, src := bw.sentCols()
	idc := bw.B.idCol()
	for j, c := range cols {
		sl := newSlice(c.Typ)
		for _, r := range bw.Recs {
			sl = appendVal(sl, bw.sentVal(r.ID, c, src[j], idc))
		}
		cs.AddColumn(c.Name, sl)
	}
	if bw.B.Variable {
		cs.AddColumn("Nanoseconds", ns)
	}
	return cs
}

func floorDiv(a, b int64) int64 {
	q := a / b
	if a%b != 0 && (a < 0) != (b < 0) {
		q--
	}
	return q
}

// WriteReq is one WriteRequest (one dataset, possibly several buckets that
// share a column layout).
type WriteReq struct {
	Parts    []*BucketWrite
	Variable bool
}

// OutRow is one row of a query result.
type OutRow struct {
	T     int64 // unix nanos (Epoch*1e9 + Nanoseconds if present)
	Epoch int64
	Nanos int32
	Names []string      // value column names, in result order (no Epoch/Nanoseconds)
	Vals  []interface{} // typed values
}

// Sig renders the value columns.
func (r *OutRow) Sig() string {
	var sb strings.Builder
	for i, n := range r.Names {
		if i > 0 {
			sb.WriteByte('|')
		}
		fmt.Fprintf(&sb, "%s=%v", n, r.Vals[i])
	}
	return sb.String()
}

// Val returns the value of a named column.
func (r *OutRow) Val(name string) (interface{}, bool) {
	for i, n := range r.Names {
		if n == name {
			return r.Vals[i], true
		}
	}
	return nil, false
}

// APIError is a request-level failure reported by the server.
type APIError struct {
	Msg   string
	Panic bool
	Stack string
}

func (e *APIError) Error() string { return e.Msg }

func guard(f func() error) (err error) {
	defer func() {
		if r := recover(); r != nil {
			if _, ok := r.(fatalSentinel); ok {
				err = &APIError{Msg: fmt.Sprintf("FATAL: %v", r), Panic: true, Stack: string(debug.Stack())}
				return
			}
			err = &APIError{Msg: fmt.Sprintf("PANIC: %v", r), Panic: true, Stack: string(debug.Stack())}
		}
	}()
	return f()
}

// Create creates a bucket.
func (n *Node) Create(b *Bucket) error {
	return guard(func() error {
		req := frontend.CreateRequest{Key: b.Key() + ":Symbol/Timeframe/AttributeGroup", IsVariableLength: b.Variable}
		for _, c := range b.Cols {
			req.ColumnNames = append(req.ColumnNames, c.Name)
			req.ColumnTypes = append(req.ColumnTypes, c.Typ)
		}
		var resp frontend.MultiServerResponse
		if err := n.DS.Create(nil, &frontend.MultiCreateRequest{Requests: []frontend.CreateRequest{req}}, &resp); err != nil {
			return &APIError{Msg: err.Error()}
		}
		for _, r := range resp.Responses {
			if r.Error != "" {
				return &APIError{Msg: r.Error}
			}
		}
		return nil
	})
}

// Write issues one MultiWriteRequest. It returns nil iff the server reported
// success for every request in it.
func (n *Node) Write(reqs ...*WriteReq) error {
	return guard(func() error {
		var m frontend.MultiWriteRequest
		for _, wr := range reqs {
			var nmds *io.NumpyMultiDataset
			for _, p := range wr.Parts {
				cs := p.buildCS()
				tbk := io.NewTimeBucketKey(p.B.Key())
				if nmds == nil {
					nds, err := io.NewNumpyDataset(cs)
					if err != nil {
						return &APIError{Msg: "client: " + err.Error()}
					}
					nmds, err = io.NewNumpyMultiDataset(nds, *tbk)
					if err != nil {
						return &APIError{Msg: "client: " + err.Error()}
					}
				} else if err := nmds.Append(cs, *tbk); err != nil {
					return &APIError{Msg: "client: " + err.Error()}
				}
			}
			m.Requests = append(m.Requests, frontend.WriteRequest{Data: nmds, IsVariableLength: wr.Variable})
		}
		var resp frontend.MultiServerResponse
		if err := n.DS.Write(nil, &m, &resp); err != nil {
			return &APIError{Msg: err.Error()}
		}
		var errs []string
		for _, r := range resp.Responses {
			if r.Error != "" {
				errs = append(errs, r.Error)
			}
		}
		if len(errs) > 0 {
			return &APIError{Msg: strings.Join(errs, "; ")}
		}
		return nil
	})
}

// QuerySpec is one query.
type QuerySpec struct {
	Dest      string // "SYM1,SYM2/TF/ATTR"
	Start     *int64 // unix nanos
	End       *int64
	Limit     int
	FromStart bool
	Columns   []string
}

func (q *QuerySpec) String() string {
	s := q.Dest
	if q.Start != nil {
		s += fmt.Sprintf(" start=%d", *q.Start)
	}
	if q.End != nil {
		s += fmt.Sprintf(" end=%d", *q.End)
	}
	if q.Limit != 0 {
		s += fmt.Sprintf(" limit=%d fromStart=%v", q.Limit, q.FromStart)
	}
	if q.Columns != nil {
		s += fmt.Sprintf(" cols=%v", q.Columns)
	}
	return s
}

// Query runs a query and decodes the result per bucket key ("SYM/TF/ATTR").
func (n *Node) Query(q *QuerySpec) (res map[string][]OutRow, err error) {
	err = guard(func() error {
		req := frontend.QueryRequest{Destination: q.Dest, Columns: q.Columns}
		if q.Start != nil {
			s := floorDiv(*q.Start, 1e9)
			ns := *q.Start - s*1e9
			req.EpochStart, req.EpochStartNanos = &s, &ns
		}
		if q.End != nil {
			s := floorDiv(*q.End, 1e9)
			ns := *q.End - s*1e9
			req.EpochEnd, req.EpochEndNanos = &s, &ns
		}
		if q.Limit != 0 {
			l := q.Limit
			fs := q.FromStart
			req.LimitRecordCount, req.LimitFromStart = &l, &fs
		}
		var resp frontend.MultiQueryResponse
		if e := n.DS.Query(nil, &frontend.MultiQueryRequest{Requests: []frontend.QueryRequest{req}}, &resp); e != nil {
			return &APIError{Msg: e.Error()}
		}
		res = map[string][]OutRow{}
		for _, r := range resp.Responses {
			nm := r.Result
			if nm == nil {
				continue
			}
			for tbkStr, start := range nm.StartIndex {
				cs, e := nm.ToColumnSeries(start, nm.Lengths[tbkStr])
				if e != nil {
					return &APIError{Msg: "decode: " + e.Error()}
				}
				key := tbkStr
				if i := strings.Index(key, ":"); i >= 0 {
					key = key[:i]
				}
				rows, e := decodeCS(cs)
				if e != nil {
					return &APIError{Msg: "decode: " + e.Error()}
				}
				res[key] = rows
			}
		}
		return nil
	})
	return res, err
}

func decodeCS(cs *io.ColumnSeries) ([]OutRow, error) {
	names := cs.GetColumnNames()
	if len(names) == 0 {
		return nil, nil
	}
	ep, ok := cs.GetColumn("Epoch").([]int64)
	if !ok {
		return nil, fmt.Errorf("no Epoch column in %v", names)
	}
	var ns []int32
	if c := cs.GetColumn("Nanoseconds"); c != nil {
		ns, _ = c.([]int32)
	}
	rows := make([]OutRow, len(ep))
	var vn []string
	var vc []interface{}
	for _, nme := range names {
		if nme == "Epoch" || nme == "Nanoseconds" {
			continue
		}
		col := cs.GetColumn(nme)
		if l := sliceLen(col); l != len(ep) {
			return nil, fmt.Errorf("column %s has %d values, Epoch has %d", nme, l, len(ep))
		}
		vn = append(vn, nme)
		vc = append(vc, col)
	}
	for i := range ep {
		r := &rows[i]
		r.Epoch = ep[i]
		r.T = ep[i] * 1e9
		if ns != nil {
			if len(ns) != len(ep) {
				return nil, fmt.Errorf("Nanoseconds has %d values, Epoch has %d", len(ns), len(ep))
			}
			r.Nanos = ns[i]
			r.T += int64(ns[i])
		}
		r.Names = vn
		r.Vals = make([]interface{}, len(vc))
		for j, c := range vc {
			r.Vals[j] = sliceAt(c, i)
		}
	}
	return rows, nil
}

// Destroy removes a bucket.
func (n *Node) Destroy(key string) error {
	return guard(func() error {
		var resp frontend.MultiServerResponse
		if err := n.DS.Destroy(nil, &frontend.MultiKeyRequest{Requests: []frontend.KeyRequest{{Key: key}}}, &resp); err != nil {
			return &APIError{Msg: err.Error()}
		}
		for _, r := range resp.Responses {
			if r.Error != "" {
				return &APIError{Msg: r.Error}
			}
		}
		return nil
	})
}

// Info is what GetInfo reports about a bucket.
type Info struct {
	LatestYear int
	TF         time.Duration
	Cols       []Col // without Epoch
	Variable   bool
}

// GetInfo asks the server for a bucket's schema.
func (n *Node) GetInfo(key string) (inf *Info, err error) {
	err = guard(func() error {
		var resp frontend.MultiGetInfoResponse
		if e := n.DS.GetInfo(nil, &frontend.MultiKeyRequest{Requests: []frontend.KeyRequest{{Key: key}}}, &resp); e != nil {
			return &APIError{Msg: e.Error()}
		}
		if len(resp.Responses) != 1 {
			return &APIError{Msg: fmt.Sprintf("%d responses", len(resp.Responses))}
		}
		r := resp.Responses[0]
		if r.ServerResp.Error != "" {
			return &APIError{Msg: r.ServerResp.Error}
		}
		inf = &Info{LatestYear: r.LatestYear, TF: r.TimeFrame, Variable: r.RecordType == io.VARIABLE}
		for _, ds := range r.DSV {
			if ds.Name == "Epoch" {
				continue
			}
			ts, _ := io.ToTypeStr(ds.Type)
			inf.Cols = append(inf.Cols, Col{Name: ds.Name, Typ: ts})
		}
		return nil
	})
	return inf, err
}

// ListTBK lists "SYM/TF/ATTR" keys the server knows.
func (n *Node) ListTBK() (keys []string, err error) {
	err = guard(func() error {
		var resp frontend.ListSymbolsResponse
		if e := n.DS.ListSymbols(nil, &frontend.ListSymbolsRequest{Format: "tbk"}, &resp); e != nil {
			return &APIError{Msg: e.Error()}
		}
		keys = append(keys, resp.Results...)
		sort.Strings(keys)
		return nil
	})
	return keys, err
}

// ListSymbols lists symbols.
func (n *Node) ListSymbols() (syms []string, err error) {
	err = guard(func() error {
		var resp frontend.ListSymbolsResponse
		if e := n.DS.ListSymbols(nil, &frontend.ListSymbolsRequest{}, &resp); e != nil {
			return &APIError{Msg: e.Error()}
		}
		syms = append(syms, resp.Results...)
		sort.Strings(syms)
		return nil
	})
	return syms, err
}
