package harness

import (
	"encoding/binary"
	"fmt"
	"math"
	"sort"
	"strings"
	"time"

	"github.com/alpacahq/marketstore/v4/contrib/ondiskagg/aggtrigger"
	"github.com/alpacahq/marketstore/v4/plugins/trigger"
	mio "github.com/alpacahq/marketstore/v4/utils/io"
	"github.com/alpacahq/marketstore/v4/zzverif/simrt"
)

// ---------------------------------------------------------------------------
// C32: every flushed record reaches every matching trigger exactly once.
// C24: the on-disk aggregation trigger keeps destination buckets equal to the
//      aggregate of the base bars.
// Triggers are injected as Go values through the public
// Container.InjectTriggerMatchers (the .so plugin loader is bypassed).
// ---------------------------------------------------------------------------

type firedRec struct {
	trig    int
	keyPath string
	index   int64
	payload []byte
}

type recTrigger struct {
	idx  int
	sink *[]firedRec
}

func (t *recTrigger) Fire(keyPath string, records []trigger.Record) {
	for i := range records {
		r := records[i]
		p := append([]byte{}, r.Payload()...)
		*t.sink = append(*t.sink, firedRec{t.idx, keyPath, r.Index(), p})
	}
	simrt.Yield("trigger-fire")
}

var typSize = map[string]int{"i1": 1, "i2": 2, "i4": 4, "i8": 8, "u1": 1, "u2": 2, "u4": 4, "u8": 8, "f4": 4, "f8": 8}

func decodeVal(b []byte, typ string) interface{} {
	switch typ {
	case "i1":
		return int8(b[0])
	case "i2":
		return int16(binary.LittleEndian.Uint16(b))
	case "i4":
		return int32(binary.LittleEndian.Uint32(b))
	case "i8":
		return int64(binary.LittleEndian.Uint64(b))
	case "u1":
		return b[0]
	case "u2":
		return binary.LittleEndian.Uint16(b)
	case "u4":
		return binary.LittleEndian.Uint32(b)
	case "u8":
		return binary.LittleEndian.Uint64(b)
	case "f4":
		return math.Float32frombits(binary.LittleEndian.Uint32(b))
	case "f8":
		return math.Float64frombits(binary.LittleEndian.Uint64(b))
	}
	return nil
}

// payloadIDs splits a trigger payload into the written rows and returns their
// ids, verifying that every column holds the value of that id.
func payloadIDs(b *Bucket, payload []byte) ([]int64, error) {
	rowLen := 0
	for _, c := range b.Cols {
		rowLen += typSize[c.Typ]
	}
	stride := rowLen
	if b.Variable {
		stride += 4 // interval ticks
	}
	var ids []int64
	idc := b.idCol()
	if b.Variable {
		if len(payload)%stride != 0 {
			return nil, fmt.Errorf("payload of %d bytes is not a multiple of the record length %d", len(payload), stride)
		}
	} else if len(payload) < rowLen {
		return nil, fmt.Errorf("payload of %d bytes is shorter than a row (%d)", len(payload), rowLen)
	}
	for off := 0; off+rowLen <= len(payload); off += stride {
		var id int64
		vals := make([]interface{}, len(b.Cols))
		o := off
		for j, c := range b.Cols {
			vals[j] = decodeVal(payload[o:], c.Typ)
			if j == idc {
				id = vals[j].(int64)
			}
			o += typSize[c.Typ]
		}
		for j := range b.Cols {
			if exp := bucketColVal(b, id, j, idc); exp != vals[j] {
				return nil, fmt.Errorf("column %s of record id %d is %v, written %v", b.Cols[j].Name, id, vals[j], exp)
			}
		}
		ids = append(ids, id)
		if !b.Variable {
			break
		}
	}
	return ids, nil
}

// patternMatches: the property's notion of "pattern matches the record's
// bucket": component-wise, '*' matches any one component.
func patternMatches(pat string, b *Bucket) bool {
	pc := strings.Split(pat, "/")
	bc := []string{b.Sym, b.TF, b.Attr}
	if len(pc) != 3 {
		return false
	}
	for i := range pc {
		if pc[i] != "*" && pc[i] != bc[i] {
			return false
		}
	}
	return true
}

func c32Engine() *Engine {
	return &Engine{Name: "SCHED", Run: func(seed uint64, tier string, res *Result) {
		r := simrt.NewRand(seed ^ 0x3232)
		w := schedWorkload(seed, tier, 40)
		// 3-4 buckets whose names are not prefixes of one another
		syms := []string{"AAA", "BBB", "CCC", "DDD"}
		nb := 3 + r.Intn(2)
		c0 := &GenCfg{TFs: []string{"1H", "1D", "4H"}, VarPct: 40, AllTypes: true}
		w.Buckets = nil
		for i := 0; i < nb; i++ {
			b := genBucket(r, c0, syms[i], i)
			b.Attr = []string{"OHLCV", "TICK"}[r.Intn(2)]
			if b.Variable {
				b.Attr = "TICK"
			} else {
				b.Attr = "OHLCV"
			}
			w.Buckets = append(w.Buckets, b)
		}
		var fired []firedRec
		pats := []string{}
		cands := []string{"*/1H/OHLCV", "*/1D/TICK", "*/*/OHLCV", "*/*/TICK", "AAA/*/*", "BBB/1H/*", "CCC/4H/OHLCV", "*/4H/*", "DDD/*/TICK", "*/*/*"}
		nt := 2 + r.Intn(3)
		for i := 0; i < nt; i++ {
			pats = append(pats, cands[r.Intn(len(cands))])
		}
		for i, p := range pats {
			w.Node.Triggers = append(w.Node.Triggers, &trigger.Matcher{Trigger: &recTrigger{idx: i, sink: &fired}, On: p})
		}
		var shutErr error
		c := schedCfg{writers: 1 + r.Intn(3), readers: 0, opsPerClient: 2 + r.Intn(5), think: time.Duration(r.Intn(3)) * 400 * time.Millisecond,
			tail: time.Second, noDupIntervals: true,
			after: func(n *Node) { shutErr = n.Shutdown() }}
		if tier == "thorough" {
			c.opsPerClient += 6
		}
		sr := runSched(w, c, seed)
		res.Runs++
		res.SimSeconds += sr.sim.VirtualElapsed().Seconds()
		for k, v := range sr.probes {
			res.Count(k, v)
		}
		res.AddDistinct(fmt.Sprintf("%x/%v/%d", sr.sim.Sched, pats, len(sr.ops)))
		if schedPanics(sr, res, "C32", seed) {
			return
		}
		mk := func(class, sig, detail string) {
			res.AddViolation(&Violation{Prop: "C32", Class: class, Sig: "C32|" + sig, Detail: detail, Seed: seed,
				Replay: map[string]interface{}{"engine": "trigger", "patterns": pats, "history": describeHistory(sr)}})
		}
		if shutErr != nil {
			mk("shutdown-panic", "shutdown-panic|"+normMsg(shutErr.Error()), "Shutdown (which drains the trigger dispatcher) panicked: "+firstLine(shutErr.Error()))
			return
		}
		res.Count("records-fired", int64(len(fired)))
		// expected: every record of every acknowledged write, once per matching trigger
		type key struct {
			trig int
			bk   string
			id   int64
		}
		want := map[key]int{}
		bk := map[string]*Bucket{}
		for _, b := range w.Buckets {
			bk[b.Key()] = b
		}
		wantIdx := map[int64]int64{} // id -> interval index
		wantYear := map[int64]int{}
		for _, op := range sr.ops {
			if op.kind != "write" || !op.ok {
				continue
			}
			for _, wr := range op.w {
				for _, p := range wr.Parts {
					for _, rc := range p.Recs {
						tt := time.Unix(0, rc.T).UTC()
						wantIdx[rc.ID] = mio.TimeToIndex(tt, p.B.TFDur())
						wantYear[rc.ID] = tt.Year()
						for ti, pat := range pats {
							if patternMatches(pat, p.B) {
								want[key{ti, p.B.Key(), rc.ID}]++
							}
						}
					}
				}
			}
		}
		got := map[key]int{}
		for _, f := range fired {
			res.Evals++
			parts := strings.Split(f.keyPath, "/")
			if len(parts) != 4 {
				mk("bad-keypath", "bad-keypath", fmt.Sprintf("trigger %d fired with key path %q", f.trig, f.keyPath))
				return
			}
			bkey := strings.Join(parts[:3], "/")
			b := bk[bkey]
			if b == nil {
				mk("unknown-bucket", "unknown-bucket", fmt.Sprintf("trigger %d fired for %s which is no bucket of the run", f.trig, bkey))
				return
			}
			if !patternMatches(pats[f.trig], b) {
				mk("fired-for-other-bucket", "fired-for-other-bucket", fmt.Sprintf("trigger %d (pattern %s) was handed a record of %s", f.trig, pats[f.trig], bkey))
				return
			}
			ids, err := payloadIDs(b, f.payload)
			if err != nil {
				mk("payload-differs", "payload-differs|"+kindOf(b), fmt.Sprintf("trigger %d, %s index %d: %v", f.trig, f.keyPath, f.index, err))
				return
			}
			for _, id := range ids {
				got[key{f.trig, bkey, id}]++
				if wi, ok := wantIdx[id]; ok && wi != f.index {
					mk("index-differs", "index-differs|"+kindOf(b), fmt.Sprintf("trigger %d: record id %d of %s was written at interval index %d, delivered with index %d", f.trig, id, bkey, wi, f.index))
					return
				}
				if wy, ok := wantYear[id]; ok && fmt.Sprintf("%d.bin", wy) != parts[3] {
					mk("year-differs", "year-differs", fmt.Sprintf("trigger %d: record id %d of %s written in %d, delivered for file %s", f.trig, id, bkey, wy, parts[3]))
					return
				}
			}
		}
		keys := make([]key, 0, len(want))
		for k := range want {
			keys = append(keys, k)
		}
		sort.Slice(keys, func(i, j int) bool {
			if keys[i].trig != keys[j].trig {
				return keys[i].trig < keys[j].trig
			}
			return keys[i].id < keys[j].id
		})
		for _, k := range keys {
			if got[k] != want[k] {
				cls := "missed"
				if got[k] > want[k] {
					cls = "delivered-twice"
				}
				mk(cls, cls+"|"+kindOf(bk[k.bk]), fmt.Sprintf("record id %d of %s: trigger %d (pattern %s) received it %d time(s), expected %d", k.id, k.bk, k.trig, pats[k.trig], got[k], want[k]))
				return
			}
		}
		for k, n := range got {
			if want[k] == 0 {
				mk("unexpected", "unexpected|"+kindOf(bk[k.bk]), fmt.Sprintf("trigger %d received record id %d of %s %d time(s) although no acknowledged write contains it", k.trig, k.id, k.bk, n))
				return
			}
		}
		res.Sample(map[string]interface{}{"seed": seed, "patterns": pats, "records_fired": len(fired), "history": describeHistory(sr)})
	}}
}

// ---- C24 ----

type bar struct {
	T          int64 // unix seconds
	O, H, L, C float32
	V          int32
	id         int64
}

func ohlcvBucket(sym, tf string) *Bucket {
	return &Bucket{Sym: sym, TF: tf, Attr: "OHLCV", Cols: []Col{{Name: "Open", Typ: "f4"}, {Name: "High", Typ: "f4"}, {Name: "Low", Typ: "f4"}, {Name: "Close", Typ: "f4"}, {Name: "Volume", Typ: "i4"}}}
}

func c24Engine() *Engine {
	return &Engine{Name: "SCHED", Run: func(seed uint64, tier string, res *Result) {
		r := simrt.NewRand(seed ^ 0x2424)
		dests := [][]string{{"5Min"}, {"5Min", "1H"}, {"15Min", "1H"}, {"1H"}, {"5Min", "15Min", "1H"}, {"1H", "1D"}}[r.Intn(6)]
		cfgMap := map[string]interface{}{"destinations": toIface(dests)}
		trg, err := aggtrigger.NewTrigger(cfgMap)
		if err != nil {
			res.Harness("aggtrigger.NewTrigger: %v", err)
			return
		}
		w := &Workload{Seed: seed, Knobs: map[string]int{"WriteChannelCommandDepth": 4096}}
		w.Node = NodeOpts{BackgroundSync: true, WALRotateInterval: 3, Triggers: []*trigger.Matcher{{Trigger: trg, On: "*/1Min/OHLCV"}}}
		w.Sim = simrt.Config{Seed: seed ^ 0x77, PreemptPct: []int{0, 0, 2, 10, 30}[r.Intn(5)], ShuffleMap: true}
		base := ohlcvBucket("AGG", "1Min")
		// base-bar history: requests of 1-12 bars around a few hours of one day
		day := time.Date(2021, 3, 10, 9, 0, 0, 0, time.UTC).Unix()
		nreq := 2 + r.Intn(6)
		if tier == "thorough" {
			nreq += 6
		}
		mode := []string{"in-order", "out-of-order", "corrections", "mixed", "aligned"}[r.Intn(5)]
		ubWin := int64(TFDurations[dests[len(dests)-1]] / time.Second)
		var reqs [][]bar
		stored := map[int64]bar{}
		cursor := day
		id := int64(0)
		for i := 0; i < nreq; i++ {
			n := 1 + r.Intn(12)
			var bars []bar
			start := cursor
			switch mode {
			case "out-of-order":
				start = day + int64(r.Intn(180))*60
			case "corrections":
				if i > 0 && r.Pct(60) {
					start = day + int64(r.Intn(int((cursor-day)/60)+1))*60
				}
			case "mixed":
				if r.Pct(50) {
					start = day + int64(r.Intn(240))*60
				}
			case "aligned":
				// out of order, short requests, many of them starting exactly on a
				// window boundary of a destination timeframe (first / last minute of a
				// window, right after a request to the window before or after it)
				start = day + int64(r.Intn(240))*60
				if r.Pct(70) {
					win := ubWin
					if r.Pct(30) {
						win = int64(TFDurations[dests[r.Intn(len(dests))]] / time.Second)
					}
					if win > 4*3600 {
						win = 3600
					}
					start -= start % win
					if r.Pct(25) {
						start -= 60 // last minute of the window before
					}
				}
				if r.Pct(60) {
					n = 1 + r.Intn(3)
				}
			}
			t := start
			for j := 0; j < n; j++ {
				id++
				o := float32(100 + r.Intn(50))
				h := o + float32(r.Intn(10))
				l := o - float32(r.Intn(10))
				cl := l + float32(r.Intn(int(h-l)+1))
				bars = append(bars, bar{T: t, O: o, H: h, L: l, C: cl, V: int32(1 + r.Intn(1000)), id: id})
				t += 60 * int64(1+r.Intn(3)) // gaps
			}
			if t > cursor {
				cursor = t
			}
			reqs = append(reqs, bars)
		}
		var n0 *Node
		var werrs []string
		var queryErr error
		got := map[string][]OutRow{}
		fsx, s := runPlain(w, func(n *Node) {
			n0 = n
			n.Create(base)
			simrt.Sleep(time.Millisecond)
			for _, bars := range reqs {
				if e := writeBars(n, base, bars); e != nil {
					werrs = append(werrs, firstLine(e.Error()))
					return
				}
				for _, b := range bars {
					stored[b.T] = b
				}
				// let the trigger chain run (dispatcher -> fire -> query -> write -> flush)
				simrt.Sleep(time.Duration(200+r.Intn(1500)) * time.Millisecond)
			}
			simrt.Sleep(3 * time.Second)
			for _, d := range dests {
				rows, e := n.Query(&QuerySpec{Dest: "AGG/" + d + "/OHLCV"})
				if e != nil {
					queryErr = e
					continue
				}
				got[d] = rows["AGG/"+d+"/OHLCV"]
			}
		})
		_ = fsx
		_ = n0
		res.Runs++
		res.SimSeconds += s.VirtualElapsed().Seconds()
		res.AddDistinct(fmt.Sprintf("%s/%v/%d/%d", mode, dests, nreq, len(stored)))
		mk := func(class, sig, detail string) {
			var hist []string
			for _, bars := range reqs {
				var l []string
				for _, b := range bars {
					l = append(l, fmt.Sprintf("%s o=%v h=%v l=%v c=%v v=%d", time.Unix(b.T, 0).UTC().Format("15:04"), b.O, b.H, b.L, b.C, b.V))
				}
				hist = append(hist, strings.Join(l, "; "))
			}
			res.AddViolation(&Violation{Prop: "C24", Class: class, Sig: "C24|" + sig, Detail: detail, Seed: seed,
				Replay: map[string]interface{}{"engine": "aggtrigger", "mode": mode, "destinations": dests, "requests": hist}})
		}
		if s.Err != nil {
			mk("hang", "hang|"+hangWho(s.Err.Error()), "run did not complete: "+s.Err.Error())
			return
		}
		for _, p := range s.Panics {
			mk("task-panic", "task-panic|"+normMsg(fmt.Sprint(p.Panic))+" ["+stackFrames(p.Stack, 1)+"]", fmt.Sprintf("task %s panicked: %v [%s]", p.Name, firstLine(fmt.Sprint(p.Panic)), stackFrames(p.Stack, 3)))
			return
		}
		if len(werrs) > 0 {
			res.Count("base-write-rejected", 1)
			return
		}
		if queryErr != nil && len(stored) > 0 {
			mk("dest-query-error", "dest-query-error|"+normMsg(queryErr.Error()), "query of a destination bucket fails: "+firstLine(queryErr.Error()))
			return
		}
		// expected aggregate of the base bars currently stored
		var ts2 []int64
		for t := range stored {
			ts2 = append(ts2, t)
		}
		sort.Slice(ts2, func(i, j int) bool { return ts2[i] < ts2[j] })
		for _, d := range dests {
			res.Evals++
			win := int64(TFDurations[d] / time.Second)
			type agg struct {
				o, h, l, c float32
				v          int32
			}
			exp := map[int64]*agg{}
			var order []int64
			for _, t := range ts2 {
				b := stored[t]
				wk := t - t%win
				a := exp[wk]
				if a == nil {
					a = &agg{o: b.O, h: b.H, l: b.L, c: b.C}
					exp[wk] = a
					order = append(order, wk)
				}
				if b.H > a.h {
					a.h = b.H
				}
				if b.L < a.l {
					a.l = b.L
				}
				a.c = b.C
				a.v += b.V
			}
			rows := got[d]
			gotM := map[int64]*OutRow{}
			for i := range rows {
				gotM[rows[i].Epoch] = &rows[i]
			}
			for _, wk := range order {
				a := exp[wk]
				g := gotM[wk]
				wt := time.Unix(wk, 0).UTC().Format("15:04")
				if g == nil {
					mk("window-missing", "window-missing|"+mode, fmt.Sprintf("destination %s has no bar for the window starting %s although base bars exist in it", d, wt))
					return
				}
				f := func(n string) interface{} { v, _ := g.Val(n); return v }
				if f("Open") != a.o || f("High") != a.h || f("Low") != a.l || f("Close") != a.c || f("Volume") != a.v {
					field := "Open"
					switch {
					case f("High") != a.h:
						field = "High"
					case f("Low") != a.l:
						field = "Low"
					case f("Close") != a.c:
						field = "Close"
					case f("Volume") != a.v:
						field = "Volume"
					}
					// what in the history touches this bar's upper-bound window (the unit the
					// trigger caches): a base bar written more than once (a correction), a
					// request that spans several such windows, a later request writing
					// before bars that an earlier request stored there
					ub := int64(TFDurations[dests[len(dests)-1]] / time.Second)
					uw := wk - wk%ub
					feat := historyFeatures(reqs, uw, ub)
					mk("bar-differs", "bar-differs|"+mode+"|"+field+"|"+feat, fmt.Sprintf("destination %s window %s holds O=%v H=%v L=%v C=%v V=%v, the base bars stored in that window aggregate to O=%v H=%v L=%v C=%v V=%v",
						d, wt, f("Open"), f("High"), f("Low"), f("Close"), f("Volume"), a.o, a.h, a.l, a.c, a.v))
					return
				}
			}
			if len(rows) != len(order) {
				mk("extra-window", "extra-window|"+mode, fmt.Sprintf("destination %s holds %d bars, base bars exist in %d windows", d, len(rows), len(order)))
				return
			}
		}
		res.Sample(map[string]interface{}{"seed": seed, "mode": mode, "destinations": dests, "requests": len(reqs), "base_bars": len(stored)})
	}}
}

// historyFeatures describes how the request history touches the upper-bound
// window [uw, uw+ub): which of the situations the aggregation cache is known
// to mishandle are present.
func historyFeatures(reqs [][]bar, uw, ub int64) string {
	times := map[int64]int{}
	rewritten, spans, backfill := false, false, false
	maxT := int64(-1)
	for _, bars := range reqs {
		in, out := false, false
		reqMin := int64(-1)
		for _, b := range bars {
			if b.T >= uw && b.T < uw+ub {
				in = true
				times[b.T]++
				if times[b.T] > 1 {
					rewritten = true
				}
				if reqMin < 0 || b.T < reqMin {
					reqMin = b.T
				}
			} else {
				out = true
			}
		}
		if in && out {
			spans = true
		}
		if in {
			if maxT >= 0 && reqMin < maxT {
				backfill = true
			}
			for _, b := range bars {
				if b.T >= uw && b.T < uw+ub && b.T > maxT {
					maxT = b.T
				}
			}
		}
	}
	var f []string
	if rewritten {
		f = append(f, "rewritten-base-bar")
	}
	if spans {
		f = append(f, "request-spans-windows")
	}
	if backfill {
		f = append(f, "backfill")
	}
	if len(f) == 0 {
		return "plain-history"
	}
	return strings.Join(f, "+")
}

func toIface(s []string) []interface{} {
	out := make([]interface{}, len(s))
	for i := range s {
		out[i] = s[i]
	}
	return out
}

func writeBars(n *Node, b *Bucket, bars []bar) error {
	return guard(func() error {
		cs := mio.NewColumnSeries()
		ep := make([]int64, len(bars))
		o := make([]float32, len(bars))
		h := make([]float32, len(bars))
		l := make([]float32, len(bars))
		c := make([]float32, len(bars))
		v := make([]int32, len(bars))
		for i, x := range bars {
			ep[i], o[i], h[i], l[i], c[i], v[i] = x.T, x.O, x.H, x.L, x.C, x.V
		}
		cs.AddColumn("Epoch", ep)
		cs.AddColumn("Open", o)
		cs.AddColumn("High", h)
		cs.AddColumn("Low", l)
		cs.AddColumn("Close", c)
		cs.AddColumn("Volume", v)
		csm := mio.NewColumnSeriesMap()
		csm.AddColumnSeries(*mio.NewTimeBucketKey(b.Key()), cs)
		return n.C.GetWriter().WriteCSM(csm, false)
	})
}

func init() {
	Engines["C32"] = c32Engine()
	Engines["C24"] = c24Engine()
}
