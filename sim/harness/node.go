// Package harness drives the real marketstore server wiring inside the
// simulator: nodes, client API wrappers, workload generation, reference model,
// engines and oracles.
package harness

import (
	"os"
	"fmt"
	"runtime/debug"
	"strings"
	"sync/atomic"

	"go.uber.org/zap"
	"go.uber.org/zap/zapcore"

	"github.com/alpacahq/marketstore/v4/catalog"
	"github.com/alpacahq/marketstore/v4/executor"
	"github.com/alpacahq/marketstore/v4/frontend"
	"github.com/alpacahq/marketstore/v4/internal/di"
	"github.com/alpacahq/marketstore/v4/plugins/trigger"
	"github.com/alpacahq/marketstore/v4/utils"
	"github.com/alpacahq/marketstore/v4/zzverif/simos"
	"github.com/alpacahq/marketstore/v4/zzverif/simrt"
)

// fatalSentinel is what utils/log.Fatal turns into under the harness.
type fatalSentinel struct{ msg string }

func (f fatalSentinel) Error() string { return "log.Fatal: " + f.msg }

type panicCore struct {
	zapcore.LevelEnabler
}

func (c panicCore) With([]zapcore.Field) zapcore.Core { return c }
func (c panicCore) Check(e zapcore.Entry, ce *zapcore.CheckedEntry) *zapcore.CheckedEntry {
	if e.Level >= zapcore.ErrorLevel || (verboseLog && e.Level >= zapcore.WarnLevel) {
		return ce.AddCore(e, c)
	}
	return ce
}
func (c panicCore) Write(e zapcore.Entry, _ []zapcore.Field) error {
	if verboseLog {
		fmt.Println("  LOG", e.Level, e.Message)
		if e.Level < zapcore.ErrorLevel {
			return nil
		}
	}
	LogErrors++
	if len(LastErrors) < 8 {
		LastErrors = append(LastErrors, e.Message)
	}
	if e.Level >= zapcore.DPanicLevel {
		panic(fatalSentinel{e.Message})
	}
	return nil
}
func (c panicCore) Sync() error { return nil }

// verboseLog (VERIF_LOG=1): print the server's warnings and errors (debugging aid).
var verboseLog = os.Getenv("VERIF_LOG") != ""

// LogErrors counts error-level log lines of the server (reset per run).
var LogErrors int
var LastErrors []string

// InstallLogger silences marketstore's logger and makes Fatal a panic.
func InstallLogger() {
	l := zap.New(panicCore{zapcore.DebugLevel})
	zap.ReplaceGlobals(l)
}

// NodeOpts configures one server instance.
type NodeOpts struct {
	BackgroundSync    bool
	WALRotateInterval int
	DisableVarComp    bool
	Triggers          []*trigger.Matcher
	// SecondaryNode: a further node co-hosted in the same simulation (replica):
	// process-wide state (executor.ThisInstance, the have-WAL-writer flag) is
	// left alone.
	SecondaryNode bool
}

// Node is one running marketstore instance (real wiring via internal/di).
type Node struct {
	Root string
	C    *di.Container
	DS   *frontend.DataService
	WAL  *executor.WALFileType
	Cat  *catalog.Directory
	Opts NodeOpts
	Down bool
}

// StartError describes a failed startup (panic or fatal).
type StartError struct {
	Panic interface{}
	Stack string
}

func (e *StartError) Error() string { return fmt.Sprintf("startup failed: %v", e.Panic) }

// StartNode builds a node on simos.Cur under root, running startup recovery.
// Panics and log.Fatal during startup are returned as *StartError.
func StartNode(root string, o NodeOpts) (n *Node, err error) {
	return startNodeWith(root, o, nil)
}

// nodeBuild is handed to a startNodeWith hook before the WAL is initialised.
type nodeBuild struct {
	c *di.Container
}

var nodesStarted int

// startNodeWith is StartNode with a hook that runs after the container exists
// and before GetInitWALFile (REPL: inject the replication sender). Only the
// first node of a simulation resets the process-wide state.
func startNodeWith(root string, o NodeOpts, hook func(nb *nodeBuild)) (n *Node, err error) {
	defer func() {
		if r := recover(); r != nil {
			n = nil
			err = &StartError{Panic: r, Stack: string(debug.Stack())}
		}
	}()
	cfg := utils.NewDefaultConfig(root)
	cfg.BackgroundSync = o.BackgroundSync
	if o.WALRotateInterval > 0 {
		cfg.WALRotateInterval = o.WALRotateInterval
	}
	cfg.DisableVariableCompression = o.DisableVarComp
	cfg.StartTime = simrt.Now()
	utils.InstanceConfig = *cfg
	if !o.SecondaryNode {
		executor.ThisInstance = nil
		executor.VerifResetGlobals() // a fresh process has no WAL writer yet
	}
	c := di.NewContainer(cfg)
	if hook != nil {
		hook(&nodeBuild{c: c})
	}
	if o.Triggers != nil {
		c.InjectTriggerMatchers(o.Triggers)
	} else {
		c.InjectTriggerMatchers([]*trigger.Matcher{})
	}
	c.GetStartTriggerPluginDispatcher()
	cat := c.GetCatalogDir()
	wal := c.GetInitWALFile()
	executor.NewInstanceSetup(cat, wal)
	ds := frontend.NewDataService(c.GetAbsRootDir(), cat, c.GetAggRunner(), c.GetWriter(), c.GetHTTPService())
	atomic.StoreUint32(&frontend.Queryable, 1)
	return &Node{Root: root, C: c, DS: ds, WAL: wal, Cat: cat, Opts: o}, nil
}

// Shutdown performs the graceful shutdown sequence of cmd/start.
func (n *Node) Shutdown() (err error) {
	defer func() {
		if r := recover(); r != nil {
			err = &StartError{Panic: r, Stack: string(debug.Stack())}
		}
	}()
	n.Down = true
	n.WAL.Shutdown()
	return nil
}

// WalFiles lists WAL files under the node root.
func WalFiles(fs *simos.FS, root string) []string {
	var out []string
	es, err := fs.ReadDir(root)
	if err != nil {
		return nil
	}
	for _, e := range es {
		if !e.IsDir() && strings.Contains(e.Name(), ".walfile") {
			out = append(out, root+"/"+e.Name())
		}
	}
	return out
}
