package harness

import (
	"flag"
	"fmt"
	"os"
	"strconv"
	"strings"
	"time"

	"github.com/alpacahq/marketstore/v4/zzverif/simrt"
)

// Worker entry point:
//
//	sim run -prop C01 -seed 100 -n 50 -budget 60 -tier quick -known /verif/known_findings.jsonl -out result.json
//	sim replay -file replay.json
func Main(args []string) int {
	if len(args) == 0 {
		fmt.Fprintln(os.Stderr, "usage: sim run|replay ...")
		return 2
	}
	switch args[0] {
	case "run":
		return cmdRun(args[1:])
	case "replay":
		return cmdReplay(args[1:])
	case "selftest":
		return cmdSelftest(args[1:])
	}
	fmt.Fprintln(os.Stderr, "unknown command", args[0])
	return 2
}

type runArgs struct {
	Prop   string
	Seed   uint64
	N      int
	Stride uint64
	Budget float64
	Tier   string
	Known  string
	Out    string
}

func cmdRun(args []string) int {
	fs := flag.NewFlagSet("run", flag.ContinueOnError)
	var a runArgs
	fs.StringVar(&a.Prop, "prop", "", "property id")
	fs.Uint64Var(&a.Seed, "seed", 1, "first seed")
	fs.IntVar(&a.N, "n", 1, "number of seeds")
	fs.Uint64Var(&a.Stride, "stride", 1, "seed stride")
	fs.Float64Var(&a.Budget, "budget", 0, "wall-clock budget in seconds (0 = none)")
	fs.StringVar(&a.Tier, "tier", "quick", "quick|thorough")
	fs.StringVar(&a.Known, "known", "", "known findings file")
	fs.StringVar(&a.Out, "out", "-", "result file")
	keep := fs.String("keep", "", "minimisation: comma separated indexes of the generated operations to keep ('none' = keep none)")
	maxPre := fs.Int("maxpreempt", -1, "minimisation: cap on preemptive task switches per simulation (-1 = no cap)")
	skipPre := fs.Int("skippreempt", 0, "suppress the first K preemptions (minimisation)")
	if err := fs.Parse(args); err != nil {
		return 2
	}
	if *keep != "" {
		keepOps = map[int]bool{}
		if *keep != "none" {
			for _, f := range strings.Split(*keep, ",") {
				if n, err := strconv.Atoi(strings.TrimSpace(f)); err == nil {
					keepOps[n] = true
				}
			}
		}
	}
	simrt.GlobalMaxPreempt = *maxPre
	simrt.GlobalSkipPreempt = *skipPre
	InstallLogger()
	if a.Known != "" {
		if err := LoadKnown(a.Known); err != nil {
			fmt.Fprintln(os.Stderr, err)
			return 2
		}
	}
	eng, ok := Engines[a.Prop]
	if !ok {
		fmt.Fprintln(os.Stderr, "no engine for property", a.Prop)
		return 2
	}
	res := NewResult(a.Prop, eng.Name)
	t0 := time.Now()
	if a.Budget > 0 {
		// a single seed may not run much past the budget either: the enumerating
		// engines stop taking further crash points / damages once this has passed
		hardDeadline = t0.Add(time.Duration(a.Budget*1.6*float64(time.Second)) + 20*time.Second)
	}
	for i := 0; i < a.N; i++ {
		if a.Budget > 0 && time.Since(t0).Seconds() > a.Budget {
			break
		}
		seed := a.Seed + uint64(i)*a.Stride
		res.Seeds = append(res.Seeds, seed)
		simrt.MaxPreemptSeen = 0
		lastGenOps = 0
		wideValues = false
		runTag = ""
		if os.Getenv("VERIF_PROGRESS") != "" {
			fmt.Println("SEED", seed) // progress marker: lets the driver attribute a fatal runtime error
		}
		func() {
			defer func() {
				if r := recover(); r != nil {
					res.Harness("seed %d: harness panic: %v", seed, r)
				}
			}()
			eng.Run(seed, a.Tier, res)
		}()
		if simrt.RaceBuild {
			collectRaces(res, a.Prop, seed)
		}
	}
	res.WallSeconds = time.Since(t0).Seconds()
	if err := res.WriteJSON(a.Out); err != nil {
		fmt.Fprintln(os.Stderr, err)
		return 2
	}
	return 0
}

// hardDeadline bounds a single seed (zero = none). It only ever truncates an
// enumeration (counted as "enumeration-cut-by-budget"), never changes a verdict.
var hardDeadline time.Time

func pastDeadline(res *Result) bool {
	if hardDeadline.IsZero() || time.Now().Before(hardDeadline) {
		return false
	}
	res.Count("enumeration-cut-by-budget", 1)
	return true
}

// Engine runs one seed of a property's check.
type Engine struct {
	Name string
	Run  func(seed uint64, tier string, res *Result)
}

// Engines is the registry: property id -> engine.
var Engines = map[string]*Engine{}

func cmdReplay(args []string) int {
	fmt.Fprintln(os.Stderr, "replay: not implemented yet")
	return 2
}

func cmdSelftest(args []string) int {
	fmt.Fprintln(os.Stderr, "selftest: not implemented yet")
	return 2
}

// DebugWorkload prints the generated workload of a property/seed.
func init() {
	if os.Getenv("VERIF_DUMP") != "" {
		dumpWorkload = true
	}
}

var dumpWorkload bool

// lifetimeWantFinal makes runLifetime read every bucket at the end of the run.
var lifetimeWantFinal bool
