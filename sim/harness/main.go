package harness

import "fmt"

// Main is the worker entry point (filled in by engine files).
func Main(args []string) int {
	fmt.Println("not implemented")
	return 2
}
