package harness

import (
	"fmt"
	"sort"
	"strings"
	"time"

	"github.com/alpacahq/marketstore/v4/zzverif/simrt"
)

// ---------------------------------------------------------------------------
// Query family (C11 ranges, C12 limits, C13 multi-symbol / projection): a
// stored history is built through the real write path inside the simulator;
// then restricted queries are compared with the unrestricted query of the same
// server, exactly as the properties are stated (no model of the scanner).
// ---------------------------------------------------------------------------

func rowsEqual(a, b []OutRow) (int, bool) {
	n := len(a)
	if len(b) < n {
		n = len(b)
	}
	for i := 0; i < n; i++ {
		if a[i].T != b[i].T || a[i].Sig() != b[i].Sig() {
			return i, false
		}
	}
	if len(a) != len(b) {
		return n, false
	}
	return 0, true
}

func descRows(r []OutRow) string {
	var s []string
	for i, x := range r {
		if i >= 8 {
			s = append(s, fmt.Sprintf("…(%d rows)", len(r)))
			break
		}
		s = append(s, ts(x.T))
	}
	return "[" + strings.Join(s, " ") + "]"
}

// interestingTimes returns instants around the stored rows and year edges.
func interestingTimes(r *simrt.Rand, b *Bucket, rows []OutRow) []int64 {
	tf := int64(b.TFDur())
	var out []int64
	add := func(t int64) { out = append(out, t) }
	for _, row := range rows {
		st := IntervalStart(row.T, b.TFDur())
		add(row.T)
		add(row.T - 1)
		add(row.T + 1)
		add(st)
		add(st - 1)
		add(st + tf - 1)
		add(st + tf)
		add(st + r.Int63n(tf))
	}
	for _, y := range []int{2019, 2020, 2021, 2022, 2023} {
		add(yearStart(y))
		add(yearStart(y) - 1)
	}
	if len(rows) > 0 {
		add(rows[0].T - 400*24*int64(time.Hour))
		add(rows[len(rows)-1].T + 400*24*int64(time.Hour))
	}
	return out
}

func sameYearOrAdj(a, b int64) bool { return true }

type queryHistory struct {
	mr   *modelRun
	all  map[string][]OutRow // unrestricted result per bucket
	keys []string
}

func queryGenCfg(r *simrt.Rand, tier string) *GenCfg {
	c := &GenCfg{
		TFs:        []string{"1Min", "5Min", "15Min", "30Min", "1H", "1H", "2H", "4H", "1D", "1D", "1H", "30Min", "10Sec"},
		MinBuckets: 1, MaxBuckets: 3, VarPct: 45,
		MinOps: 2, MaxOps: 7, MaxRows: 9, BigRowsPct: 3, MultiPct: 10,
		SleepPct: 3, RestartPct: 0, QueryPct: 0, PreCreate: r.Pct(30), AvoidKnown: true, AllTypes: false,
		Years: []int{2020, 2021, 2022}, BgSyncPct: 50, MaxSleep: 2 * time.Second, HotPct: 70, UnsortedPct: 0,
	}
	if tier == "thorough" {
		c.MaxOps = 12
	}
	return c
}

// buildHistory runs the write history and collects the unrestricted results.
func buildHistory(prop string, w *Workload, res *Result, then func(qh *queryHistory)) {
	n := len(w.Ops)
	runModelHistory(prop, w, res, func(mr *modelRun, i int, op *WOp, err error) {
		if op.Kind == "write" && err != nil {
			mr.stop = true // not this property's business (C08/C09/C14 own writes)
			res.Count("history-write-rejected", 1)
			return
		}
		if i != n-1 {
			return
		}
		qh := &queryHistory{mr: mr, all: map[string][]OutRow{}}
		for k := range mr.model.B {
			qh.keys = append(qh.keys, k)
		}
		sort.Strings(qh.keys)
		for _, k := range qh.keys {
			rows, e := mr.node.Query(&QuerySpec{Dest: k})
			if e != nil {
				res.Count("unrestricted-query-error", 1)
				continue
			}
			qh.all[k] = rows[k]
		}
		then(qh)
	})
}

// ---- C11 ----

func inRange(b *Bucket, t, start, end int64) bool {
	if b.Variable {
		return t >= start && t <= end
	}
	return t >= IntervalStart(start, b.TFDur()) && t <= end
}

func c11Engine() *Engine {
	return &Engine{Name: "MODEL", Run: func(seed uint64, tier string, res *Result) {
		r := simrt.NewRand(seed ^ 0x1111)
		w := Gen(seed, queryGenCfg(r, tier))
		nq := 25
		if tier == "thorough" {
			nq = 120
		}
		buildHistory("C11", w, res, func(qh *queryHistory) {
			for _, key := range qh.keys {
				all, ok := qh.all[key]
				if !ok || len(all) == 0 {
					continue
				}
				b := qh.mr.model.B[key].B
				pts := interestingTimes(r, b, all)
				for q := 0; q < nq; q++ {
					start := pts[r.Intn(len(pts))]
					end := pts[r.Intn(len(pts))]
					if r.Pct(85) && end < start {
						start, end = end, start
					}
					var exp []OutRow
					for _, row := range all {
						if inRange(b, row.T, start, end) {
							exp = append(exp, row)
						}
					}
					got, err := qh.mr.node.Query(&QuerySpec{Dest: key, Start: &start, End: &end})
					res.Evals++
					shape := fmt.Sprintf("%s/%s/exp%d/of%d/%s", kindOf(b), b.TF, minInt(len(exp), 6), minInt(len(all), 12), rangeShape(b, all, start, end))
					res.AddDistinct(shape)
					if err != nil {
						if len(exp) == 0 {
							res.Count("empty-range-error-accepted", 1)
							continue
						}
						cls := "query-error"
						if ae, ok := err.(*APIError); ok && ae.Panic {
							cls = "query-panic"
						}
						qh.mr.violate(cls, fmt.Sprintf("%s|%s|%s", cls, kindOf(b), normMsg(err.Error())),
							fmt.Sprintf("range query %s [%s, %s] fails: %s; the unrestricted query has %d rows in range", key, ts(start), ts(end), firstLine(err.Error()), len(exp)))
						continue
					}
					if i, same := rowsEqual(exp, got[key]); !same {
						cls := "range-mismatch"
						feat := mismatchFeature(b, exp, got[key], start, end)
						qh.mr.violate(cls, fmt.Sprintf("%s|%s|%s", cls, kindOf(b), feat),
							fmt.Sprintf("range query %s [%s, %s]: expected %s (rows of the unrestricted result in range), got %s; first difference at row %d",
								key, ts(start), ts(end), descRows(exp), descRows(got[key]), i))
					}
				}
			}
			res.Sample(map[string]interface{}{"seed": seed, "ops": w.Describe(), "range_queries_per_bucket": nq})
		})
	}}
}

func rangeShape(b *Bucket, all []OutRow, start, end int64) string {
	s := ""
	if end < start {
		s += "inverted"
	}
	if len(all) > 0 {
		if end < all[0].T {
			s += "before-all"
		}
		if start > all[len(all)-1].T {
			s += "after-all"
		}
	}
	if time.Unix(0, start).UTC().Year() != time.Unix(0, end).UTC().Year() {
		s += "cross-year"
	}
	if IntervalStart(start, b.TFDur()) != start {
		s += "mid-start"
	}
	if IntervalStart(end, b.TFDur()) != end {
		s += "mid-end"
	}
	return s
}

// mismatchFeature classifies how got differs from exp.
func mismatchFeature(b *Bucket, exp, got []OutRow, start, end int64) string {
	es := map[int64]int{}
	for _, r := range exp {
		es[r.T]++
	}
	gs := map[int64]int{}
	for _, r := range got {
		gs[r.T]++
	}
	extraAfter, extraBefore, missing := 0, 0, 0
	for _, r := range got {
		if es[r.T] == 0 {
			if r.T > end {
				extraAfter++
			} else if r.T < start {
				extraBefore++
			}
		}
	}
	for _, r := range exp {
		if gs[r.T] == 0 {
			missing++
		}
	}
	f := ""
	if extraAfter > 0 {
		f += "rows-after-end"
	}
	if extraBefore > 0 {
		f += "rows-before-start"
	}
	if missing > 0 {
		f += "rows-missing"
	}
	if f == "" {
		f = "order-or-duplicate"
	}
	if len(exp) == 0 {
		f += "|expected-empty"
	}
	if end < start {
		f += "|inverted"
	}
	return f
}

// ---- C12 ----

func c12Engine() *Engine {
	return &Engine{Name: "MODEL", Run: func(seed uint64, tier string, res *Result) {
		r := simrt.NewRand(seed ^ 0x1212)
		w := Gen(seed, queryGenCfg(r, tier))
		nq := 20
		if tier == "thorough" {
			nq = 100
		}
		buildHistory("C12", w, res, func(qh *queryHistory) {
			for _, key := range qh.keys {
				all, ok := qh.all[key]
				if !ok || len(all) == 0 {
					continue
				}
				b := qh.mr.model.B[key].B
				pts := interestingTimes(r, b, all)
				for q := 0; q < nq; q++ {
					var sp, ep *int64
					if r.Pct(70) {
						start := pts[r.Intn(len(pts))]
						end := pts[r.Intn(len(pts))]
						if end < start {
							start, end = end, start
						}
						sp, ep = &start, &end
					}
					unl, err := qh.mr.node.Query(&QuerySpec{Dest: key, Start: sp, End: ep})
					if err != nil {
						continue // C11's business
					}
					base := unl[key]
					n := 1 + r.Intn(len(base)+2)
					fromStart := r.Pct(50)
					var exp []OutRow
					if n >= len(base) {
						exp = base
					} else if fromStart {
						exp = base[:n]
					} else {
						exp = base[len(base)-n:]
					}
					got, err := qh.mr.node.Query(&QuerySpec{Dest: key, Start: sp, End: ep, Limit: n, FromStart: fromStart})
					res.Evals++
					dir := "last"
					if fromStart {
						dir = "first"
					}
					res.AddDistinct(fmt.Sprintf("%s/%s/%s/n%d/of%d/ranged=%v", kindOf(b), b.TF, dir, minInt(n, 8), minInt(len(base), 10), sp != nil))
					rng := "all time"
					if sp != nil {
						rng = fmt.Sprintf("[%s, %s]", ts(*sp), ts(*ep))
					}
					if err != nil {
						if len(exp) == 0 {
							continue
						}
						cls := "query-error"
						if ae, ok := err.(*APIError); ok && ae.Panic {
							cls = "query-panic"
						}
						qh.mr.violate(cls, fmt.Sprintf("%s|%s|%s|%s", cls, kindOf(b), dir, normMsg(err.Error())),
							fmt.Sprintf("limited query %s %s %s %d fails: %s; unlimited result has %d rows", key, rng, dir, n, firstLine(err.Error()), len(base)))
						continue
					}
					if i, same := rowsEqual(exp, got[key]); !same {
						feat := "wrong-rows"
						if len(got[key]) < len(exp) {
							feat = "too-few"
						} else if len(got[key]) > len(exp) {
							feat = "too-many"
						}
						ranged := "all-time"
						if sp != nil {
							ranged = "ranged"
						}
						qh.mr.violate("limit-mismatch", fmt.Sprintf("limit-mismatch|%s|%s|%s|%s", kindOf(b), dir, ranged, feat),
							fmt.Sprintf("limited query %s %s %s %d: expected %s (of unlimited %s), got %s; first difference at row %d",
								key, rng, dir, n, descRows(exp), descRows(base), descRows(got[key]), i))
					}
				}
			}
			res.Sample(map[string]interface{}{"seed": seed, "ops": w.Describe(), "limit_queries_per_bucket": nq})
		})
	}}
}

// ---- C13 ----

func c13Engine() *Engine {
	return &Engine{Name: "MODEL", Run: func(seed uint64, tier string, res *Result) {
		r := simrt.NewRand(seed ^ 0x1313)
		c := queryGenCfg(r, tier)
		c.MinBuckets, c.MaxBuckets = 2, 4
		w := Gen(seed, c)
		// make the buckets symbols of one (timeframe, attribute group); schemas
		// equal in most runs, different in some (mixed schemas across symbols)
		schemaMode := r.Intn(100)
		sameSchema := schemaMode < 55
		// "common": the symbols share a set of columns (same names, same types) and
		// each adds columns of its own, so that the stored record widths differ; a
		// multi-symbol query is then legal only when projected onto shared columns
		commonCols := !sameSchema && schemaMode < 85
		b0 := w.Buckets[0]
		shared := append([]Col{}, b0.Cols...)
		for i, b := range w.Buckets {
			b.TF, b.Attr, b.Variable = b0.TF, b0.Attr, b0.Variable
			b.Sym = fmt.Sprintf("S%d", i)
			if sameSchema {
				b.Cols = b0.Cols
			}
			if commonCols {
				cols := append([]Col{}, shared...)
				for j, nx := 0, r.Intn(4); j < nx; j++ {
					cols = append(cols, Col{Name: fmt.Sprintf("X%d_%d", i, j), Typ: []string{"f4", "f8", "i4", "i8", "i2", "u1", "u2"}[r.Intn(7)]})
				}
				b.Cols = cols
			}
		}
		// regenerate record times for the unified timeframe
		for _, op := range w.Ops {
			for _, wr := range op.W {
				wr.Variable = b0.Variable
				for _, p := range wr.Parts {
					for i := range p.Recs {
						if !b0.Variable {
							p.Recs[i].T = floorDiv(p.Recs[i].T, 1e9) * 1e9
						}
					}
				}
			}
		}
		buildHistory("C13", w, res, func(qh *queryHistory) {
			n := qh.mr.node
			var syms []string
			for _, k := range qh.keys {
				if _, ok := qh.all[k]; ok {
					syms = append(syms, strings.SplitN(k, "/", 2)[0])
				}
			}
			if len(syms) == 0 {
				return
			}
			suffix := "/" + b0.TF + "/" + b0.Attr
			check := func(dest string, want []string, what string) {
				got, err := n.Query(&QuerySpec{Dest: dest})
				res.Evals++
				res.AddDistinct(fmt.Sprintf("%s/%s/%s/nsym%d/same=%v", kindOf(b0), b0.TF, what, len(want), sameSchema))
				if err != nil {
					if !sameSchema {
						res.Count("mixed-schema-multi-query-error", 1)
						return // documented restriction: symbols must share a data type
					}
					cls := "query-error"
					if ae, ok := err.(*APIError); ok && ae.Panic {
						cls = "query-panic"
					}
					qh.mr.violate(cls, fmt.Sprintf("%s|%s|%s", cls, what, normMsg(err.Error())),
						fmt.Sprintf("multi-symbol query %s fails: %s", dest, firstLine(err.Error())))
					return
				}
				for _, s := range want {
					key := s + suffix
					if i, same := rowsEqual(qh.all[key], got[key]); !same {
						feat := "same-schema"
						if commonCols {
							feat = "shared-columns-different-widths"
						} else if !sameSchema {
							feat = "same-names-different-types"
						}
						qh.mr.violate("multi-mismatch", fmt.Sprintf("multi-mismatch|%s|%s|%s", feat, what, kindOf(b0)),
							fmt.Sprintf("query %s: rows for %s are %s, single query returns %s (first difference at row %d)", dest, key, descRows(got[key]), descRows(qh.all[key]), i))
						return
					}
				}
				for k := range got {
					found := false
					for _, s := range want {
						if k == s+suffix {
							found = true
						}
					}
					if !found && len(got[k]) > 0 {
						qh.mr.violate("multi-extra", "multi-extra|"+what, fmt.Sprintf("query %s returned bucket %s that was not asked for", dest, k))
					}
				}
			}
			// all symbols, subsets, with a missing symbol, '*'
			check(strings.Join(syms, ",")+suffix, syms, "all-listed")
			if len(syms) > 1 {
				sub := []string{syms[r.Intn(len(syms))]}
				other := syms[r.Intn(len(syms))]
				if other != sub[0] {
					sub = append(sub, other)
				}
				check(strings.Join(sub, ",")+suffix, sub, "subset")
			}
			check("*"+suffix, syms, "star")
			// restricted and projected multi-symbol queries against the same query
			// of each symbol alone (ranges, first/last N, shared-column projections)
			multiVsSingle := func(what string, q QuerySpec, want []string) {
				q.Dest = strings.Join(want, ",") + suffix
				got, err := n.Query(&q)
				res.Evals++
				res.AddDistinct(fmt.Sprintf("%s/%s/%s/nsym%d/mode=%d", kindOf(b0), b0.TF, what, len(want), schemaModeClass(sameSchema, commonCols)))
				var singles = map[string][]OutRow{}
				singleErr := false
				for _, s := range want {
					q1 := q
					q1.Dest = s + suffix
					g1, e1 := n.Query(&q1)
					if e1 != nil {
						singleErr = true
						break
					}
					singles[s+suffix] = g1[s+suffix]
				}
				if singleErr {
					res.Count("restricted-single-query-error", 1)
					return
				}
				if err != nil {
					if !sameSchema && !commonCols {
						res.Count("mixed-schema-multi-query-error", 1)
						return
					}
					if commonCols && q.Columns == nil {
						res.Count("mixed-width-unprojected-multi-query-refused", 1)
						return // documented restriction: different layouts need a shared projection
					}
					cls := "query-error"
					if ae, ok := err.(*APIError); ok && ae.Panic {
						cls = "query-panic"
					}
					qh.mr.violate(cls, fmt.Sprintf("%s|%s|%s", cls, what, normMsg(err.Error())),
						fmt.Sprintf("multi-symbol query %s fails although each symbol alone answers: %s", q.String(), firstLine(err.Error())))
					return
				}
				for _, s := range want {
					key := s + suffix
					if i, same := rowsEqual(singles[key], got[key]); !same {
						feat := "same-schema"
						if commonCols {
							feat = "shared-columns-different-widths"
						} else if !sameSchema {
							feat = "same-names-different-types"
						}
						qh.mr.violate("multi-mismatch", fmt.Sprintf("multi-mismatch|%s|%s|%s", feat, what, kindOf(b0)),
							fmt.Sprintf("query %s: rows for %s are %s, the same query of that symbol alone returns %s (first difference at row %d: %s vs %s)",
								q.String(), key, descRows(got[key]), descRows(singles[key]), i, rowAt(got[key], i), rowAt(singles[key], i)))
						return
					}
				}
			}
			if len(syms) > 1 {
				var proj []string
				for _, c := range shared {
					if r.Pct(60) {
						proj = append(proj, c.Name)
					}
				}
				if len(proj) == 0 {
					proj = []string{shared[r.Intn(len(shared))].Name}
				}
				// the property quantifies over all column lists: unknown names and
				// duplicates, at any position (first, middle, last)
				if r.Pct(35) {
					at := r.Intn(len(proj) + 1)
					proj = append(proj[:at:at], append([]string{"NoSuchColumn"}, proj[at:]...)...)
				}
				if r.Pct(20) {
					at := r.Intn(len(proj) + 1)
					proj = append(proj[:at:at], append([]string{proj[r.Intn(len(proj))]}, proj[at:]...)...)
				}
				var times []int64
				for _, k := range qh.keys {
					if len(qh.all[k]) > 0 {
						times = append(times, interestingTimes(r, b0, qh.all[k])...)
					}
				}
				shapes := []QuerySpec{{}}
				if len(times) > 0 {
					a, b := times[r.Intn(len(times))], times[r.Intn(len(times))]
					if a > b {
						a, b = b, a
					}
					shapes = append(shapes, QuerySpec{Start: &a, End: &b})
					a2, b2 := a, b
					shapes = append(shapes, QuerySpec{Start: &a2, End: &b2, Limit: 1 + r.Intn(4), FromStart: r.Pct(50)})
				}
				shapes = append(shapes, QuerySpec{Limit: 1 + r.Intn(5), FromStart: true}, QuerySpec{Limit: 1 + r.Intn(5), FromStart: false})
				for si, q := range shapes {
					what := []string{"plain", "range", "range+limit", "first-n", "last-n"}[shapeIdx(si, len(shapes))]
					qp := q
					qp.Columns = proj
					multiVsSingle("projected-"+what, qp, syms)
					if sameSchema && si > 0 {
						multiVsSingle("unprojected-"+what, q, syms)
					}
				}
			}
			// projection: column subsets incl. unknown and duplicate names
			for _, s := range syms {
				key := s + suffix
				b := qh.mr.model.B[key].B
				full := qh.all[key]
				if len(full) == 0 {
					continue
				}
				var cols []string
				for _, c := range b.Cols {
					if r.Pct(55) {
						cols = append(cols, c.Name)
					}
				}
				if r.Pct(25) {
					cols = append(cols, "NoSuchColumn")
				}
				if r.Pct(25) && len(cols) > 0 {
					cols = append(cols, cols[0])
				}
				if len(cols) == 0 {
					cols = []string{b.Cols[0].Name}
				}
				got, err := n.Query(&QuerySpec{Dest: key, Columns: cols})
				res.Evals++
				res.AddDistinct(fmt.Sprintf("proj/%s/%d-of-%d", kindOf(b), len(cols), len(b.Cols)))
				if err != nil {
					qh.mr.violate("projection-error", "projection-error|"+normMsg(err.Error()), fmt.Sprintf("query %s columns %v fails: %s", key, cols, firstLine(err.Error())))
					continue
				}
				want := map[string]bool{}
				for _, c := range cols {
					for _, bc := range b.Cols {
						if bc.Name == c {
							want[c] = true
						}
					}
				}
				rows := got[key]
				if len(rows) != len(full) {
					qh.mr.violate("projection-rows", "projection-rows|"+kindOf(b), fmt.Sprintf("query %s columns %v returns %d rows, unprojected %d", key, cols, len(rows), len(full)))
					continue
				}
				for i := range rows {
					if rows[i].T != full[i].T {
						qh.mr.violate("projection-time", "projection-time|"+kindOf(b), fmt.Sprintf("query %s columns %v: row %d time %s vs %s", key, cols, i, ts(rows[i].T), ts(full[i].T)))
						break
					}
					gotNames := map[string]bool{}
					bad := ""
					for j, nme := range rows[i].Names {
						gotNames[nme] = true
						if !want[nme] {
							bad = "unrequested column " + nme
						}
						if fv, ok := full[i].Val(nme); !ok || fv != rows[i].Vals[j] {
							bad = fmt.Sprintf("column %s value %v differs from unprojected %v", nme, rows[i].Vals[j], fv)
						}
					}
					for c := range want {
						if !gotNames[c] {
							bad = "requested column " + c + " missing"
						}
					}
					if bad != "" {
						qh.mr.violate("projection-cols", "projection-cols|"+kindOf(b)+"|"+normMsg(bad), fmt.Sprintf("query %s columns %v row %d: %s (got columns %v)", key, cols, i, bad, rows[i].Names))
						break
					}
				}
			}
			res.Sample(map[string]interface{}{"seed": seed, "ops": w.Describe(), "symbols": syms})
		})
	}}
}

func schemaModeClass(same, common bool) int {
	switch {
	case same:
		return 0
	case common:
		return 1
	}
	return 2
}

// shapeIdx maps the position in the shapes list to its name index (the two
// range shapes are present only when the history has rows).
func shapeIdx(i, n int) int {
	if n == 5 {
		return i
	}
	// {plain, first-n, last-n}
	return []int{0, 3, 4}[i]
}

func rowAt(rows []OutRow, i int) string {
	if i < 0 || i >= len(rows) {
		return "(no row)"
	}
	return ts(rows[i].T) + " " + rows[i].Sig()
}

func init() {
	Engines["C11"] = c11Engine()
	Engines["C12"] = c12Engine()
	Engines["C13"] = c13Engine()
}
