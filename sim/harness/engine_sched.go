package harness

import (
	"fmt"
	"runtime"
	"sort"
	"strings"
	"time"

	"github.com/alpacahq/marketstore/v4/executor"

	"github.com/anishathalye/porcupine"

	"github.com/alpacahq/marketstore/v4/zzverif/simos"
	"github.com/alpacahq/marketstore/v4/zzverif/simrt"
)

// ---------------------------------------------------------------------------
// SCHED engine: concurrent client tasks against the real server with the
// background WAL writer running, under the seeded scheduler (preemption at
// every channel, lock and file operation). The history records invoke/return
// with the simulator's global event counter.
// ---------------------------------------------------------------------------

type schedOp struct {
	client   int
	kind     string // write | read
	w        []*WriteReq
	key      string
	inv, ret int64
	ok       bool
	err      error
	rows     []OutRow
	issue    int // fs log markers
	ack      int
}

type schedRun struct {
	w            *Workload
	fs           *simos.FS
	base         *simos.FS
	log          []*simos.Op
	ops          []*schedOp
	sim          *simrt.Sim
	startErr     *StartError
	finalPre     map[string][]OutRow // after Shutdown returned (C35)
	finalStart   int                 // fs log index when the final queries began
	finalErr     map[string]error
	shutErr      error
	shutAt       int // fs log index when Shutdown returned
	probes       map[string]int64
	cold         bool // clients started before the background WAL writer task ran
	stuckClients int
	inlineFlush  bool // a request found haveWALWriter false in RequestFlush after Shutdown was requested
}

type schedCfg struct {
	writers, readers int
	opsPerClient     int
	think            time.Duration // max think time between ops
	alignPct         int           // percent of ops that instead wait for the next multiple of alignTo since start (+-1ms/0)
	alignTo          time.Duration // e.g. the checkpoint ticker's period: requests land while a checkpoint/rotation runs
	shutdown         bool          // graceful Shutdown at a tape-chosen moment
	shutAtYield      int           // >0: request it at that scheduling point of the other tasks (else between requests)
	slowSyncPermille int           // probability (per mille) that an fsync / sync(2) takes virtual time
	lastNReads       bool          // readers also issue "last N" queries
	tail             time.Duration // virtual time to let pass at the end
	readAllBuckets   bool
	coldStart        bool
	after            func(n *Node) // runs after all clients returned and the tail elapsed
	noDupIntervals   bool          // fixed buckets: no two rows of one request in the same interval
}

var evCounter int64

func nextEv() int64 { evCounter++; return evCounter }

// runSched executes the concurrent history.
func runSched(w *Workload, c schedCfg, seed uint64) *schedRun {
	r := simrt.NewRand(seed ^ 0x5ced)
	fs := simos.New()
	fs.MkdirAll(dataRoot, 0o755)
	sr := &schedRun{w: w, fs: fs, probes: map[string]int64{}}
	simos.Cur = fs
	applyKnobs(w.Knobs)
	evCounter = 0
	ids := &idGen{n: 1000}
	gc := &GenCfg{Years: []int{2021, 2022}, HotPct: 85, MaxRows: 3, UnsortedPct: 10, AvoidKnown: true}
	hot := map[*Bucket][]int64{}
	for _, b := range w.Buckets {
		hot[b] = hotTimes(r, b, gc)[:3] // few hot intervals: writers collide on them
	}
	// pre-generate each client's operations (the schedule decides the order)
	type cop struct {
		kind  string
		w     []*WriteReq
		key   string
		think time.Duration
		align int // 0 = no; else 1+offset index
		lastN int // read: >0 = "last N rows" query (its result is not judged; it exercises the backward scan while writes are pending)
	}
	plans := make([][]cop, c.writers+c.readers)
	for ci := range plans {
		for i := 0; i < c.opsPerClient; i++ {
			th := time.Duration(0)
			if c.think > 0 && r.Pct(40) {
				th = time.Duration(r.Int63n(int64(c.think)))
			}
			al := 0
			if c.alignPct > 0 && r.Pct(c.alignPct) {
				al = 1 + r.Intn(3)
			}
			if ci < c.writers {
				b := w.Buckets[r.Intn(len(w.Buckets))]
				n := 1 + r.Intn(gc.MaxRows)
				recs := genRecs(r, gc, b, hot[b], ids, n)
				if c.noDupIntervals && !b.Variable {
					seen := map[int64]bool{}
					var u []Rec
					for _, rc := range recs {
						if t := IntervalStart(rc.T, b.TFDur()); !seen[t] {
							seen[t] = true
							u = append(u, rc)
						}
					}
					recs = u
				}
				wr := &WriteReq{Variable: b.Variable, Parts: []*BucketWrite{{B: b, Recs: recs}}}
				plans[ci] = append(plans[ci], cop{kind: "write", w: []*WriteReq{wr}, think: th, align: al})
			} else {
				b := w.Buckets[r.Intn(len(w.Buckets))]
				ln := 0
				if c.lastNReads && r.Pct(35) {
					ln = 1 + r.Intn(3)
				}
				plans[ci] = append(plans[ci], cop{kind: "read", key: b.Key(), think: th, lastN: ln})
			}
		}
	}
	shutAfter := -1
	if c.shutdown {
		shutAfter = r.Intn(c.writers*c.opsPerClient + 1)
	}
	// a slow disk: in some runs an fsync or sync(2) takes virtual time (5 ms ... 20 s),
	// so that timers fire and other tasks get through whole requests while the
	// WAL writer sits in the middle of a flush or a checkpoint
	if c.slowSyncPermille > 0 {
		sr2 := simrt.NewRand(seed ^ 0x510d15c)
		simos.SlowSync = func(kind string) time.Duration {
			if sr2.Intn(1000) >= c.slowSyncPermille {
				return 0
			}
			sr.probes["slow-sync-"+kind]++
			return []time.Duration{5 * time.Millisecond, 200 * time.Millisecond, time.Second, 6 * time.Second, 20 * time.Second}[sr2.Intn(5)]
		}
		defer func() { simos.SlowSync = nil }()
	}
	var simStart int64
	sr.sim = simrt.Run(w.Sim, func() {
		simStart = simrt.NowNanos()
		n, err := StartNode(dataRoot, w.Node)
		if err != nil {
			sr.startErr = err.(*StartError)
			return
		}
		for _, b := range w.Buckets {
			n.Create(b)
		}
		simos.SyncFS() // buckets created "long ago"
		// In most runs the server has been up for a moment, so the background
		// WAL writer task has started (it announces itself through an
		// unsynchronised package variable); in the rest clients hit a cold server
		// and their first flushes run inline, racing with the writer's start.
		if !c.coldStart {
			simrt.Sleep(time.Millisecond)
		}
		sr.cold = c.coldStart
		if c.coldStart {
			runTag = "|cold-start"
		}
		sr.base = fs.Clone()
		fs.Log = nil
		fs.Record = true
		wg := &simrt.WaitGroup{}
		writesDone := 0
		shutting := false
		if c.shutdown {
			// once Shutdown has been requested: does a client request find the WAL writer gone when it asks
			// for its flush (it reads the unsynchronised haveWALWriter in RequestFlush
			// and, if false, flushes inline)?
			// (The scheduling point comes before the read; nothing else runs between
			// the read and the task's next scheduling point, so the flag's value at
			// that next point is the value the task read.)
			atRequestFlush := map[int]bool{}
			simrt.S.OnYield = func(site string) {
				if sr.inlineFlush {
					return
				}
				id := simrt.CurTaskID()
				if atRequestFlush[id] {
					delete(atRequestFlush, id)
					if shutting && !executor.VerifHaveWALWriter() {
						sr.inlineFlush = true
						return
					}
				}
				if site != "shared-read" || !strings.HasPrefix(simrt.S.TaskName(id), "client") {
					return
				}
				pcs := make([]uintptr, 24)
				fr := runtime.CallersFrames(pcs[:runtime.Callers(2, pcs)])
				for {
					f, more := fr.Next()
					if strings.HasSuffix(f.Function, ".RequestFlush") {
						atRequestFlush[id] = true
						return
					}
					if !more {
						return
					}
				}
			}
		}
		for ci := range plans {
			ci := ci
			wg.Add(1)
			simrt.GoNamed(fmt.Sprintf("client%d", ci), func() {
				defer wg.Done()
				for _, p := range plans[ci] {
					if shutting && p.kind == "write" {
						return // a real front end stops accepting requests before Shutdown
					}
					if p.think > 0 {
						simrt.Sleep(p.think)
					}
					if p.align > 0 {
						period := int64(c.alignTo)
						d := period - (simrt.NowNanos()-simStart)%period
						d += []int64{-int64(time.Millisecond), 0, int64(time.Millisecond)}[p.align-1]
						simrt.Sleep(time.Duration(d))
					}
					if p.kind == "read" && p.lastN > 0 {
						// not part of the judged history
						n.Query(&QuerySpec{Dest: p.key, Limit: p.lastN, FromStart: false})
						continue
					}
					op := &schedOp{client: ci, kind: p.kind, w: p.w, key: p.key}
					sr.ops = append(sr.ops, op)
					simrt.S.InFlight++
					if p.kind == "write" {
						op.issue = fs.Marker(fmt.Sprintf("issue:c%d", ci))
						op.inv = nextEv()
						e := n.Write(p.w...)
						op.ret = nextEv()
						op.ok, op.err = e == nil, e
						op.ack = fs.Marker(fmt.Sprintf("ack:c%d:%v", ci, e == nil))
						writesDone++
					} else {
						op.inv = nextEv()
						rows, e := n.Query(&QuerySpec{Dest: p.key})
						op.ret = nextEv()
						op.ok, op.err = e == nil, e
						op.rows = rows[p.key]
					}
					simrt.S.InFlight--
				}
			})
		}
		if c.shutdown {
			if c.shutAtYield > 0 {
				// request the graceful shutdown at the k-th scheduling point of the
				// clients and the server's own tasks: in the middle of a flush, of a
				// checkpoint, of a request that has queued its commands ...
				if simrt.WaitYields(c.shutAtYield, 20*time.Minute) {
					sr.probes["shutdown-requested-mid-activity"] = 1
				}
			} else {
				// request the graceful shutdown once shutAfter writes have returned
				// (always at a quiescent instant: the clock only moves when every
				// task is parked)
				for writesDone < shutAfter && !allDone(sr, plans) {
					simrt.Sleep(time.Duration(1+r.Intn(40)) * time.Millisecond)
				}
			}
			shutting = true
			fs.Marker("shutdown-requested")
			sr.shutErr = n.Shutdown()
			sr.shutAt = fs.Marker("shutdown-returned")
			// requests still in flight are never answered once the process exits:
			// give them a bounded time, do not wait for them
			for i := 0; i < 50 && wg.Count() > 0; i++ {
				simrt.Sleep(100 * time.Millisecond)
			}
			sr.stuckClients = wg.Count()
			sr.finalStart = fs.Marker("final-queries")
			sr.finalPre = map[string][]OutRow{}
			sr.finalErr = map[string]error{}
			for _, b := range w.Buckets {
				rows, e := n.Query(&QuerySpec{Dest: b.Key()})
				if e != nil {
					sr.finalErr[b.Key()] = e
				} else {
					sr.finalPre[b.Key()] = rows[b.Key()]
				}
			}
			return
		}
		wg.Wait()
		if c.tail > 0 {
			simrt.Sleep(c.tail)
		}
		if c.after != nil {
			c.after(n)
		}
		sr.probes["have-wal-writer"] = 1
	})
	sr.log = fs.Log
	fs.Record = false
	sr.probes["switches"] = int64(sr.sim.Switch)
	sr.probes["preemptions"] = int64(sr.sim.Preempt)
	sr.probes["preemptions-inside-request"] = int64(sr.sim.SwitchInFlight)
	sr.probes["select-with-choice"] = int64(sr.sim.Stats["select-choice"])
	sr.probes["lock-contended"] = int64(sr.sim.Stats["lock-contended"])
	return sr
}

func allDone(sr *schedRun, plans interface{}) bool { return false }

func schedWorkload(seed uint64, tier string, varPct int) *Workload {
	r := simrt.NewRand(seed ^ 0x7777)
	c := &GenCfg{TFs: []string{"1H", "1H", "1D", "4H", "2H", "30Min"}, MinBuckets: 1, MaxBuckets: 2, VarPct: varPct,
		MinOps: 0, MaxOps: 0, MaxRows: 3, PreCreate: true, AvoidKnown: true, AllTypes: false,
		Years: []int{2021, 2022}, BgSyncPct: 100, MaxSleep: time.Second, HotPct: 80}
	w := Gen(seed, c)
	w.Ops = nil
	w.Node.BackgroundSync = true
	w.Node.WALRotateInterval = 1 + r.Intn(3)
	w.Sim = simrt.Config{Seed: seed ^ 0x1357, PreemptPct: []int{2, 10, 30, 30, 60}[r.Intn(5)], ShuffleMap: true}
	w.Knobs["WriteChannelCommandDepth"] = []int{1024, 4096, 64}[r.Intn(3)]
	// in 3 runs of 5 tasks can be "slow": the clock may jump to the next timer
	// deadline in the middle of a request, so ticks land inside requests
	w.Sim.SlowPermille = []int{0, 0, 5, 20, 60}[r.Intn(5)]
	return w
}

// ---- history oracles ----

type regWrite struct {
	op *schedOp
	id int64
}

// historyViolations checks the recorded history: fixed buckets per (bucket,
// interval) register, variable buckets as grow-only multisets.
func historyViolations(sr *schedRun, res *Result, prop string, seed uint64, usePorcupine bool) {
	mk := func(class, sig, detail string) {
		if sr.cold {
			sig += "|cold-start"
			detail += " (clients started before the background WAL writer task had run)"
		}
		res.AddViolation(&Violation{Prop: prop, Class: class, Sig: prop + "|" + sig, Detail: detail, Seed: seed,
			Replay: map[string]interface{}{"engine": "sched", "history": describeHistory(sr)}})
	}
	bk := map[string]*Bucket{}
	for _, b := range sr.w.Buckets {
		bk[b.Key()] = b
	}
	// index writes
	fixedW := map[string]map[int64][]regWrite{}            // key -> interval -> writes
	varW := map[string]map[int64]*schedOp{}                // key -> id -> write
	transient := map[string]map[int64]map[int64]*schedOp{} // key -> interval -> id overwritten inside its own request -> write
	for _, op := range sr.ops {
		if op.kind != "write" {
			continue
		}
		for _, wr := range op.w {
			for _, e := range reqEffects(wr) {
				if e.b.Variable {
					if varW[e.key] == nil {
						varW[e.key] = map[int64]*schedOp{}
					}
					varW[e.key][e.id] = op
				} else {
					if fixedW[e.key] == nil {
						fixedW[e.key] = map[int64][]regWrite{}
					}
					fixedW[e.key][e.T] = append(fixedW[e.key][e.T], regWrite{op, e.id})
				}
			}
			// ids of the same request that a later row of the request overwrites:
			// they may be visible only while the request is in flight
			for _, p := range wr.Parts {
				if p.B.Variable {
					continue
				}
				for _, rc := range p.Recs {
					t := IntervalStart(rc.T, p.B.TFDur())
					final := false
					for _, x := range fixedW[p.B.Key()][t] {
						if x.id == rc.ID {
							final = true
						}
					}
					if !final {
						if transient[p.B.Key()] == nil {
							transient[p.B.Key()] = map[int64]map[int64]*schedOp{}
						}
						if transient[p.B.Key()][t] == nil {
							transient[p.B.Key()][t] = map[int64]*schedOp{}
						}
						transient[p.B.Key()][t][rc.ID] = op
					}
				}
			}
		}
	}
	checkRead := func(rd *schedOp) {
		res.Evals++
		b := bk[rd.key]
		if rd.err != nil {
			// an error is acceptable only while nothing was ever acknowledged for the bucket
			anyAcked := false
			for _, op := range sr.ops {
				if op.kind == "write" && op.ok && op.ret < rd.inv {
					for _, wr := range op.w {
						for _, p := range wr.Parts {
							if p.B.Key() == rd.key {
								anyAcked = true
							}
						}
					}
				}
			}
			if ae, ok := rd.err.(*APIError); ok && ae.Panic {
				mk("query-panic", "query-panic|"+kindOf(b)+"|"+normMsg(ae.Msg)+" ["+stackFrames(ae.Stack, 1)+"]", fmt.Sprintf("client %d: query of %s panicked: %s [%s]", rd.client, rd.key, firstLine(ae.Msg), stackFrames(ae.Stack, 3)))
			} else if anyAcked {
				mk("query-error", "query-error|"+kindOf(b)+"|"+normMsg(rd.err.Error()), fmt.Sprintf("client %d: query of %s (which holds acknowledged data) fails: %s", rd.client, rd.key, firstLine(rd.err.Error())))
			}
			return
		}
		o := observe(b, rd.rows)
		if o.bad != nil {
			mk("partial-row", "partial-row|"+kindOf(b), fmt.Sprintf("client %d: query of %s returned a row that no single write produced: %v", rd.client, rd.key, o.bad))
			return
		}
		if !b.Variable {
			ints := make([]int64, 0, len(fixedW[rd.key]))
			for t := range fixedW[rd.key] {
				ints = append(ints, t)
			}
			sort.Slice(ints, func(i, j int) bool { return ints[i] < ints[j] })
			for _, t := range ints {
				ws := fixedW[rd.key][t]
				got, have := o.fixed[t]
				var gw *schedOp
				if have {
					for _, x := range ws {
						if x.id == got {
							gw = x.op
						}
					}
					if gw == nil {
						if tw := transient[rd.key][t][got]; tw != nil {
							// a row of a request that the same request overwrites: visible only
							// while that request is being applied
							if tw.ret < rd.inv {
								mk("intermediate-visible", "intermediate-visible|fixed", fmt.Sprintf("query of %s started at event %d returns id %d at %s, which its own request (returned at event %d) overwrote with a later row", rd.key, rd.inv, got, ts(t), tw.ret))
								return
							}
							gw = tw
						}
					}
					if gw == nil {
						mk("phantom", "phantom|fixed", fmt.Sprintf("query of %s returned id %d at %s which no write to that interval contains", rd.key, got, ts(t)))
						break
					}
					if gw.inv > rd.ret {
						mk("future-read", "future-read|fixed", fmt.Sprintf("query of %s returned id %d whose write was issued after the query returned", rd.key, got))
						break
					}
				}
				for _, x := range ws {
					if !x.op.ok || x.op.ret >= rd.inv {
						continue
					}
					// x was acknowledged before the read started: the read must show x
					// or a write that is not entirely before x
					if !have {
						mk("stale-read", "stale-read|fixed|missing", fmt.Sprintf("write of id %d to %s %s returned at event %d, a query started at event %d does not return the interval", x.id, rd.key, ts(t), x.op.ret, rd.inv))
						return
					}
					if gw.ret < x.op.inv && gw != x.op {
						mk("stale-read", "stale-read|fixed|older-value", fmt.Sprintf("write of id %d to %s %s returned at event %d; a query started at event %d returns id %d whose write had completed before (event %d)", x.id, rd.key, ts(t), x.op.ret, rd.inv, got, gw.ret))
						return
					}
				}
			}
		} else {
			for id, c := range o.varCnt {
				wop := varW[rd.key][id]
				if wop == nil {
					mk("phantom", "phantom|variable", fmt.Sprintf("query of %s returned record id %d that nobody wrote", rd.key, id))
					return
				}
				if wop.inv > rd.ret {
					mk("future-read", "future-read|variable", fmt.Sprintf("query of %s returned record id %d issued after the query returned", rd.key, id))
					return
				}
				if c > 1 {
					mk("dup", "dup|variable", fmt.Sprintf("query of %s returned record id %d %d times", rd.key, id, c))
					return
				}
			}
			ids := make([]int64, 0, len(varW[rd.key]))
			for id := range varW[rd.key] {
				ids = append(ids, id)
			}
			sort.Slice(ids, func(i, j int) bool { return ids[i] < ids[j] })
			for _, id := range ids {
				wop := varW[rd.key][id]
				if wop.ok && wop.ret < rd.inv && o.varCnt[id] == 0 {
					mk("stale-read", "stale-read|variable|missing", fmt.Sprintf("write of record id %d to %s returned at event %d, a query started at event %d does not return it", id, rd.key, wop.ret, rd.inv))
					return
				}
			}
		}
	}
	for _, rd := range sr.ops {
		if rd.kind == "read" {
			checkRead(rd)
		}
	}
	if !usePorcupine {
		return
	}
	// porcupine: each (fixed bucket, interval) is a register
	for key, m := range fixedW {
		for t, ws := range m {
			var hist []porcupine.Operation
			for _, x := range ws {
				if !x.op.ok {
					continue // a failed write may or may not have taken effect: leave it out (reads of its id are checked above)
				}
				hist = append(hist, porcupine.Operation{ClientId: x.op.client, Input: regIn{true, x.id}, Call: x.op.inv, Output: int64(0), Return: x.op.ret})
			}
			failed := map[int64]bool{}
			for _, x := range ws {
				if !x.op.ok {
					failed[x.id] = true
				}
			}
			for _, rd := range sr.ops {
				if rd.kind != "read" || rd.key != key || rd.err != nil {
					continue
				}
				o := observe(bk[key], rd.rows)
				got, have := o.fixed[t]
				if !have {
					got = 0
				}
				if failed[got] || transient[key][t][got] != nil {
					continue
				}
				hist = append(hist, porcupine.Operation{ClientId: rd.client, Input: regIn{false, 0}, Call: rd.inv, Output: got, Return: rd.ret})
			}
			if len(hist) < 2 || len(hist) > 200 {
				continue
			}
			r := porcupine.CheckOperationsTimeout(regModel, hist, 20*time.Second)
			res.Count("porcupine-registers", 1)
			switch r {
			case porcupine.Illegal:
				mk("not-linearizable", "not-linearizable|fixed", fmt.Sprintf("register (%s, %s): the write/read history of %d operations is not linearizable", key, ts(t), len(hist)))
			case porcupine.Unknown:
				res.Count("porcupine-inconclusive", 1)
			}
		}
	}
}

type regIn struct {
	write bool
	id    int64
}

var regModel = porcupine.Model{
	Init: func() interface{} { return int64(0) },
	Step: func(state, input, output interface{}) (bool, interface{}) {
		in := input.(regIn)
		if in.write {
			return true, in.id
		}
		return output.(int64) == state.(int64), state
	},
	DescribeOperation: func(input, output interface{}) string {
		in := input.(regIn)
		if in.write {
			return fmt.Sprintf("write(%d)", in.id)
		}
		return fmt.Sprintf("read->%d", output.(int64))
	},
}

func describeHistory(sr *schedRun) []string {
	var out []string
	out = append(out, fmt.Sprintf("preempt=%d%% rotate=%d depth=%d buckets=%d", sr.w.Sim.PreemptPct, sr.w.Node.WALRotateInterval, sr.w.Knobs["WriteChannelCommandDepth"], len(sr.w.Buckets)))
	for _, op := range sr.ops {
		s := fmt.Sprintf("c%d %s [%d,%d]", op.client, op.kind, op.inv, op.ret)
		if op.kind == "write" {
			s += " " + (&WOp{Kind: "write", W: op.w}).String()[6:] + fmt.Sprintf(" ok=%v", op.ok)
			if op.err != nil {
				s += " err=" + clip2(firstLine(op.err.Error()), 120)
			}
			if op.ret == 0 {
				s += " (never returned)"
			}
		} else {
			s += fmt.Sprintf(" %s -> %d rows", op.key, len(op.rows))
			if op.err != nil {
				s += " err=" + clip(firstLine(op.err.Error()))
			}
		}
		out = append(out, clip2(s, 300))
	}
	if len(out) > 80 {
		out = append(out[:80], fmt.Sprintf("…(%d operations)", len(sr.ops)))
	}
	return out
}

func clip2(s string, n int) string {
	if len(s) > n {
		return s[:n-3] + "..."
	}
	return s
}

func schedPanics(sr *schedRun, res *Result, prop string, seed uint64) bool {
	bad := false
	if sr.startErr != nil {
		res.Harness("seed %d: node start failed: %v", seed, sr.startErr.Panic)
		return true
	}
	for _, p := range sr.sim.Panics {
		bad = true
		res.AddViolation(&Violation{Prop: prop, Class: "task-panic", Sig: prop + "|task-panic|" + normMsg(fmt.Sprint(p.Panic)) + " [" + stackFrames(p.Stack, 1) + "]" + coldSuffix(sr) + inlineSuffix(sr), Seed: seed,
			Detail: fmt.Sprintf("task %s panicked: %v [%s]", p.Name, firstLine(fmt.Sprint(p.Panic)), stackFrames(p.Stack, 3)), Replay: map[string]interface{}{"history": describeHistory(sr)}})
	}
	for _, op := range sr.ops {
		if ae, ok := op.err.(*APIError); ok && ae.Panic && op.kind == "write" {
			bad = true
			res.AddViolation(&Violation{Prop: prop, Class: "write-panic", Sig: prop + "|write-panic|" + normMsg(ae.Msg) + " [" + stackFrames(ae.Stack, 1) + "]" + coldSuffix(sr) + inlineSuffix(sr), Seed: seed,
				Detail: fmt.Sprintf("client %d: write panicked: %s [%s]", op.client, firstLine(ae.Msg), stackFrames(ae.Stack, 3)), Replay: map[string]interface{}{"history": describeHistory(sr)}})
		}
	}
	if sr.sim.Err != nil && !bad {
		hk := "deadlock"
		if strings.Contains(sr.sim.Err.Error(), "step cap") {
			hk = "spin"
		}
		res.AddViolation(&Violation{Prop: prop, Class: "hang", Sig: prop + "|hang|" + hk + "|" + hangWho(sr.sim.Err.Error()) + coldSuffix(sr), Seed: seed,
			Detail: "the run did not complete: " + sr.sim.Err.Error(), Replay: map[string]interface{}{"history": describeHistory(sr)}})
		bad = true
	}
	return bad
}

// hangWho extracts what the blocked tasks wait on (task names without ids).
func hangWho(msg string) string {
	i := strings.Index(msg, ";")
	if i < 0 {
		return normMsg(msg)
	}
	var parts []string
	for _, p := range strings.Split(msg[i+1:], ",") {
		p = strings.TrimSpace(p)
		if j := strings.Index(p, ":"); j >= 0 {
			p = p[j+1:]
		}
		if strings.HasPrefix(p, "client") {
			if k := strings.Index(p, "@"); k >= 0 {
				p = "client" + p[k:]
			}
		}
		parts = append(parts, p)
	}
	sort.Strings(parts)
	var ded []string
	for i, p := range parts {
		if i == 0 || p != parts[i-1] {
			ded = append(ded, p)
		}
	}
	return strings.Join(ded, ",")
}

// durabilityAtAck: at the moment a write returned, the image in which nothing
// un-synced survived must recover the write.
func durabilityAtAck(sr *schedRun, res *Result, prop string, seed uint64, maxChecks int) {
	if sr.base == nil {
		return
	}
	synced := simos.SyncedBy(sr.log)
	if dumpWorkload {
		for i, op := range sr.log {
			if i < 120 {
				fmt.Println("   LOG", op, "task", op.Task, "syncedBy", synced[i])
			}
		}
	}
	r := simrt.NewRand(seed ^ 0xD00D)
	var acks []*schedOp
	for _, op := range sr.ops {
		if op.kind == "write" && op.ok {
			acks = append(acks, op)
		}
	}
	for len(acks) > maxChecks {
		i := r.Intn(len(acks))
		acks = append(acks[:i], acks[i+1:]...)
	}
	for _, op := range acks {
		k := op.ack
		img := sr.base.Clone()
		for i := 0; i < k; i++ {
			o := sr.log[i]
			if !o.Mutating() {
				continue
			}
			if o.DataOp() && synced[i] >= k {
				continue
			}
			img.Apply(o)
		}
		var bs []*Bucket
		for _, wr := range op.w {
			for _, p := range wr.Parts {
				bs = append(bs, p.B)
			}
		}
		at := int64(0)
		if k > 0 {
			at = sr.log[k-1].Time
		}
		rc := recoverOn(img, sr.w, bs, seed+uint64(k), at, nil)
		res.Count("durability-at-ack-checks", 1)
		if rc.Start != nil || rc.SimErr != nil {
			res.Count("durability-at-ack-restart-failed", 1) // C03/C04's subject
			continue
		}
		for _, wr := range op.w {
			for _, e := range reqEffects(wr) {
				if rc.QErr[e.key] != nil {
					continue
				}
				o := observe(e.b, rc.Rows[e.key])
				ok := false
				if e.b.Variable {
					ok = o.varCnt[e.id] > 0
				} else {
					got, have := o.fixed[e.T]
					ok = have && (got == e.id || !writeEntirelyBefore(sr, e.key, e.T, got, op))
				}
				if !ok {
					res.AddViolation(&Violation{Prop: prop, Class: "ack-not-durable", Sig: prop + "|ack-not-durable|" + kindOf(e.b) + coldSuffix(sr), Seed: seed,
						Detail: fmt.Sprintf("client %d's write (record id %d, %s) returned success at log position %d, but power loss at that instant loses it: its data was not yet synced to the WAL (window %s)", op.client, e.id, e.key, k, ackWindow(sr.log, k)),
						Replay: map[string]interface{}{"engine": "sched", "k": k, "history": describeHistory(sr)}})
					return
				}
			}
		}
	}
}

// writeEntirelyBefore: is the write of id got (to key/T) entirely before op?
func writeEntirelyBefore(sr *schedRun, key string, t, got int64, op *schedOp) bool {
	for _, x := range sr.ops {
		if x.kind != "write" {
			continue
		}
		for _, wr := range x.w {
			// every row of the request counts, also one that a later row of the same
			// request overwrites: a flush may pick up only part of a request that is
			// still being queued
			for _, p := range wr.Parts {
				if p.B.Key() != key || p.B.Variable {
					continue
				}
				for _, rc := range p.Recs {
					if rc.ID == got && IntervalStart(rc.T, p.B.TFDur()) == t {
						// a request that never returned (ret == 0) is concurrent with
						// everything issued after it
						return x.ret != 0 && x.ret < op.inv
					}
				}
			}
		}
	}
	return true // unknown id: treat as old
}

// inlineSuffix tags a run in which a client request, after Shutdown had been
// requested, found the unsynchronised haveWALWriter false and flushed inline,
// concurrently with the WAL writer's final flush (the known cause C35 lists).
func inlineSuffix(sr *schedRun) string {
	if sr.inlineFlush {
		return "|request-flushed-inline-during-shutdown"
	}
	return ""
}

func coldSuffix(sr *schedRun) string {
	if sr.cold {
		return "|cold-start"
	}
	return ""
}

func ackWindow(log []*simos.Op, k int) string {
	// what the WAL writer was doing around the ack: last WAL-related site before k
	for i := k - 1; i >= 0; i-- {
		if log[i].Kind == simos.OpMarker {
			continue
		}
		return opLabel(log[i])
	}
	return "start"
}

func c07Engine() *Engine {
	return &Engine{Name: "SCHED", Run: func(seed uint64, tier string, res *Result) {
		r := simrt.NewRand(seed ^ 0x0707)
		w := schedWorkload(seed, tier, 40)
		c := schedCfg{writers: 2 + r.Intn(3), readers: 1 + r.Intn(2), opsPerClient: 3 + r.Intn(5), think: time.Duration(r.Intn(3)) * 300 * time.Millisecond, tail: 2 * time.Second, coldStart: r.Pct(20)}
		c.slowSyncPermille = []int{0, 0, 0, 40, 150}[r.Intn(5)]
		if tier == "thorough" {
			c.opsPerClient += 6
		}
		sr := runSched(w, c, seed)
		res.Runs++
		res.SimSeconds += sr.sim.VirtualElapsed().Seconds()
		for k, v := range sr.probes {
			res.Count(k, v)
		}
		res.AddDistinct(fmt.Sprintf("%x/%d/%d", sr.sim.Sched, sr.sim.Preempt, len(sr.ops)))
		if schedPanics(sr, res, "C07", seed) {
			return
		}
		historyViolations(sr, res, "C07", seed, tier == "thorough" || r.Pct(30))
		n := 4
		if tier == "thorough" {
			n = 1000
		}
		durabilityAtAck(sr, res, "C07", seed, n)
		res.Sample(map[string]interface{}{"seed": seed, "writers": c.writers, "readers": c.readers, "history": describeHistory(sr)})
	}}
}

func c18Engine() *Engine {
	return &Engine{Name: "SCHED", Run: func(seed uint64, tier string, res *Result) {
		r := simrt.NewRand(seed ^ 0x1818)
		w := schedWorkload(seed, tier, 60)
		c := schedCfg{writers: 2 + r.Intn(3), readers: 2 + r.Intn(3), opsPerClient: 4 + r.Intn(6), think: time.Duration(r.Intn(2)) * 200 * time.Millisecond, tail: time.Second, coldStart: r.Pct(20)}
		c.slowSyncPermille = []int{0, 0, 0, 40, 150}[r.Intn(5)]
		c.lastNReads = true
		// at quiescence every committed row is visible to every kind of query: the
		// last / first N rows are a suffix / prefix of the unlimited result (state
		// that a query leaves behind while writes were pending must not outlive them)
		var limitMismatch []string
		c.after = func(n *Node) {
			for _, b := range w.Buckets {
				all, e := n.Query(&QuerySpec{Dest: b.Key()})
				if e != nil {
					continue
				}
				rows := all[b.Key()]
				for _, N := range []int{1, 2, 5} {
					for _, fromStart := range []bool{false, true} {
						got, e2 := n.Query(&QuerySpec{Dest: b.Key(), Limit: N, FromStart: fromStart})
						if e2 != nil {
							continue // limit errors are C12's subject
						}
						g := got[b.Key()]
						want := rows
						if len(want) > N {
							if fromStart {
								want = want[:N]
							} else {
								want = want[len(want)-N:]
							}
						}
						if b.Variable {
							continue // C12's known finding (limit counted in intervals) applies
						}
						if _, same := rowsEqual(want, g); !same {
							dir := "last"
							if fromStart {
								dir = "first"
							}
							limitMismatch = append(limitMismatch, fmt.Sprintf("%s|bucket %s: %s %d rows are %s, the unlimited result ends/starts with %s", dir, b.Key(), dir, N, descRows(g), descRows(want)))
						}
					}
				}
			}
		}
		if tier == "thorough" {
			c.opsPerClient += 8
		}
		sr := runSched(w, c, seed)
		res.Runs++
		res.SimSeconds += sr.sim.VirtualElapsed().Seconds()
		for k, v := range sr.probes {
			res.Count(k, v)
		}
		res.AddDistinct(fmt.Sprintf("%x/%d/%d", sr.sim.Sched, sr.sim.Preempt, len(sr.ops)))
		if schedPanics(sr, res, "C18", seed) {
			return
		}
		historyViolations(sr, res, "C18", seed, false)
		for _, m := range limitMismatch {
			parts := strings.SplitN(m, "|", 2)
			sig := "C18|limit-differs-at-quiescence|" + parts[0]
			if sr.cold {
				sig += "|cold-start"
			}
			res.AddViolation(&Violation{Prop: "C18", Class: "limit-differs-at-quiescence", Sig: sig, Seed: seed,
				Detail: "after all requests returned: " + parts[1], Replay: map[string]interface{}{"engine": "sched", "history": describeHistory(sr)}})
			break
		}
		res.Sample(map[string]interface{}{"seed": seed, "writers": c.writers, "readers": c.readers, "history": describeHistory(sr)})
	}}
}

func init() {
	Engines["C07"] = c07Engine()
	Engines["C18"] = c18Engine()
}
