package harness

import (
	"fmt"
	"math"
	"sort"
	"strings"
	"time"

	"github.com/alpacahq/marketstore/v4/zzverif/simrt"
)

// ---------------------------------------------------------------------------
// C14: schema validation of writes; C15: schema preserved across restarts.
// Both run the real server fault-free inside the simulator (virtual timers,
// graceful restarts) against the reference model.
// ---------------------------------------------------------------------------

func checkAllBuckets(mr *modelRun, when string) bool {
	keys := make([]string, 0, len(mr.model.B))
	for k := range mr.model.B {
		keys = append(keys, k)
	}
	sort.Strings(keys)
	for _, key := range keys {
		mb := mr.model.B[key]
		rows, err := mr.node.Query(&QuerySpec{Dest: key})
		mr.res.Evals++
		if err != nil {
			if len(mb.Fixed)+len(mb.Var) == 0 {
				continue
			}
			mr.violate("query-error", "query-error|"+when+"|"+normMsg(err.Error()), fmt.Sprintf("%s: query of %s fails: %s", when, key, firstLine(err.Error())))
			return false
		}
		if mm := CompareAll(mb, rows[key]); mm != nil {
			if dumpWorkload {
				fmt.Println("   LOGERRORS", LogErrors, LastErrors)
				fmt.Println("   FILES", mr.fs.Walk(dataRoot))
				for _, k2 := range keys {
					r2, e2 := mr.node.Query(&QuerySpec{Dest: k2})
					fmt.Println("   BUCKET", k2, "err", e2, "rows", len(r2[k2]))
					for _, rw := range r2[k2] {
						fmt.Println("   ROW", k2, ts(rw.T), rw.Sig())
					}
				}
			}
			mr.violate("changed-"+mm.Class, fmt.Sprintf("%s|%s|%s|%s", mr.lastFeat, when, mm.Class, kindOf(mb.B)),
				fmt.Sprintf("%s: bucket %s differs from what accepted writes put there: %s", when, key, mm.Detail))
			return false
		}
	}
	return true
}

var retypeTo = map[string][]string{
	"i1": {"i2", "i4", "i8", "f4", "f8"}, "i2": {"i4", "i8", "f4", "f8", "i1"}, "i4": {"i8", "f8", "i2", "f4"}, "i8": {"f8", "i4"},
	"u1": {"u2", "u4", "u8", "i2", "f4"}, "u2": {"u4", "u8", "i4", "f8"}, "u4": {"u8", "i8", "f8"}, "u8": {"i8", "f8"},
	"f4": {"f8", "i4", "i8", "u4"}, "f8": {"f4", "i8", "i4"},
}

// mapByName fills p.SrcIdx for explicitly sent columns p.Cols by matching the
// bucket's columns by name, and records the expected stored value where the
// sent type differs from the bucket's (standard numeric conversion there and
// back). It returns false if the names are not the same set (a mismatch).
func mapByName(b *Bucket, p *BucketWrite) bool {
	p.SrcIdx = nil
	match := len(p.Cols) == len(b.Cols)
	used := map[int]bool{}
	idc := b.idCol()
	for _, sc := range p.Cols {
		idx := -1
		for j, bc := range b.Cols {
			if bc.Name == sc.Name && !used[j] {
				idx = j
				break
			}
		}
		if idx < 0 {
			match = false
		} else {
			used[idx] = true
		}
		p.SrcIdx = append(p.SrcIdx, idx)
	}
	if !match {
		return false
	}
	for k, sc := range p.Cols {
		j := p.SrcIdx[k]
		if sc.Typ == b.Cols[j].Typ {
			continue
		}
		if b.Overrides == nil {
			b.Overrides = map[int64]map[string]interface{}{}
		}
		for _, rec := range p.Recs {
			v := bucketColVal(b, rec.ID, j, idc)
			if b.Overrides[rec.ID] == nil {
				b.Overrides[rec.ID] = map[string]interface{}{}
			}
			b.Overrides[rec.ID][b.Cols[j].Name] = Convert(Convert(v, sc.Typ), b.Cols[j].Typ)
		}
	}
	return true
}

// riskyConv: a float bucket column sent as an 8/16-bit integer would convert
// values that are out of the integer's range, which Go leaves implementation
// defined; such pairs are not generated.
func riskyConv(b *Bucket, sent []Col) bool {
	for _, sc := range sent {
		for _, bc := range b.Cols {
			if bc.Name == sc.Name && (bc.Typ == "f4" || bc.Typ == "f8") {
				switch sc.Typ {
				case "i1", "i2", "u1", "u2":
					return true
				}
			}
		}
	}
	return false
}

func boolInt(b bool) int {
	if b {
		return 1
	}
	return 0
}

// definedConv: Go (and so "standard numeric conversion") defines every
// integer->integer, integer->float and float->float conversion; float->integer
// only when the truncated value fits the integer type.
func definedConv(v interface{}, typ string) bool {
	var f float64
	switch x := v.(type) {
	case float32:
		f = float64(x)
	case float64:
		f = x
	default:
		return true
	}
	if typ == "f4" || typ == "f8" {
		return true
	}
	bits := map[string]float64{"i1": 8, "i2": 16, "i4": 32, "i8": 64, "u1": 8, "u2": 16, "u4": 32, "u8": 64}[typ]
	if typ[0] == 'u' {
		return f > -1 && f < math.Pow(2, bits)
	}
	return f > -math.Pow(2, bits-1)-1 && f < math.Pow(2, bits-1)
}

func c14Engine() *Engine {
	return &Engine{Name: "MODEL", Run: func(seed uint64, tier string, res *Result) {
		r := simrt.NewRand(seed ^ 0x1414)
		wideValues = r.Pct(70)
		c := &GenCfg{TFs: []string{"1Min", "5Min", "1H", "1H", "4H", "1D", "15Min"}, MinBuckets: 2, MaxBuckets: 3, VarPct: 35,
			MinOps: 1, MaxOps: 3, MaxRows: 4, SleepPct: 0, PreCreate: true, AvoidKnown: true, AllTypes: true,
			Years: []int{2021, 2022}, BgSyncPct: 60, MaxSleep: time.Second, HotPct: 50, UnsortedPct: 0}
		w := Gen(seed, c)
		// give all buckets the same record kind; bucket 1 shares bucket 0's column
		// names in 60% of runs (so one dataset can legally address both)
		b0 := w.Buckets[0]
		for _, b := range w.Buckets[1:] {
			b.Variable = b0.Variable
			b.Attr = b0.Attr
			if b.TF == b0.TF && b.Sym == b0.Sym {
				b.Sym += "Y"
			}
		}
		share := r.Pct(60)
		if share {
			w.Buckets[1].Cols = append([]Col(nil), b0.Cols...)
		}
		for _, op := range w.Ops {
			for _, wr := range op.W {
				wr.Variable = b0.Variable
				for _, p := range wr.Parts {
					for i := range p.Recs {
						if !b0.Variable {
							p.Recs[i].T = floorDiv(p.Recs[i].T, 1e9) * 1e9
						}
					}
				}
			}
		}
		ids := &idGen{n: 500000}
		hot := map[*Bucket][]int64{}
		for _, b := range w.Buckets {
			hot[b] = hotTimes(r, b, c)
		}
		// the scenario under test, appended after the baseline history
		type scen struct {
			name   string
			op     *WOp
			reject bool // the request must be rejected
		}
		mkPart := func(b *Bucket, n int) *BucketWrite {
			return &BucketWrite{B: b, Recs: genRecs(r, c, b, hot[b], ids, n)}
		}
		var sc scen
		tgt := w.Buckets[r.Intn(len(w.Buckets))]
		switch r.Intn(7) {
		case 0: // missing column
			if len(tgt.Cols) < 2 {
				tgt = b0
			}
			p := mkPart(tgt, 2)
			drop := r.Intn(len(tgt.Cols))
			for j, cc := range tgt.Cols {
				if j != drop || len(tgt.Cols) == 1 {
					p.Cols = append(p.Cols, cc)
					p.SrcIdx = append(p.SrcIdx, j)
				}
			}
			if len(tgt.Cols) == 1 {
				p.Cols = []Col{{Name: "Other", Typ: "i8"}}
				p.SrcIdx = []int{-1}
			}
			sc = scen{"missing-column", &WOp{Kind: "write", W: []*WriteReq{{Variable: tgt.Variable, Parts: []*BucketWrite{p}}}}, true}
		case 1: // extra column
			p := mkPart(tgt, 2)
			for j, cc := range tgt.Cols {
				p.Cols = append(p.Cols, cc)
				p.SrcIdx = append(p.SrcIdx, j)
			}
			p.Cols = append(p.Cols, Col{Name: "Extra", Typ: "f4"})
			p.SrcIdx = append(p.SrcIdx, -1)
			sc = scen{"extra-column", &WOp{Kind: "write", W: []*WriteReq{{Variable: tgt.Variable, Parts: []*BucketWrite{p}}}}, true}
		case 2: // renamed column
			p := mkPart(tgt, 2)
			ren := r.Intn(len(tgt.Cols))
			for j, cc := range tgt.Cols {
				if j == ren {
					// the new name may sort before or after the old one and the other
					// columns (suffix, prefix, another word, other case)
					switch r.Intn(6) {
					case 0:
						cc.Name += "x"
					case 1:
						cc.Name = "A" + cc.Name
					case 2:
						cc.Name = "zz" + cc.Name
					case 3:
						cc.Name = []string{"Aaa", "Size", "Mid", "zzz", "B0", "_"}[r.Intn(6)]
					case 4:
						if l := strings.ToLower(cc.Name); l != cc.Name {
							cc.Name = l
						} else {
							cc.Name = strings.ToUpper(cc.Name) + "_"
						}
					default:
						cc.Name = cc.Name[:len(cc.Name)-1] + "0"
					}
					// it must be a name the bucket does not have
					for clash := true; clash; {
						clash = false
						for _, oc := range tgt.Cols {
							if oc.Name == cc.Name {
								clash = true
								cc.Name += "q"
							}
						}
					}
				}
				p.Cols = append(p.Cols, cc)
				p.SrcIdx = append(p.SrcIdx, j)
			}
			sc = scen{"renamed-column", &WOp{Kind: "write", W: []*WriteReq{{Variable: tgt.Variable, Parts: []*BucketWrite{p}}}}, true}
		case 3: // reordered columns: same names -> must be accepted and stored by name
			p := mkPart(tgt, 3)
			n := len(tgt.Cols)
			perm := make([]int, n)
			for i := range perm {
				perm[i] = i
			}
			for i := n - 1; i > 0; i-- {
				j := r.Intn(i + 1)
				perm[i], perm[j] = perm[j], perm[i]
			}
			for _, j := range perm {
				p.Cols = append(p.Cols, tgt.Cols[j])
				p.SrcIdx = append(p.SrcIdx, j)
			}
			sc = scen{"reordered-columns", &WOp{Kind: "write", W: []*WriteReq{{Variable: tgt.Variable, Parts: []*BucketWrite{p}}}}, false}
		case 4: // retyped column: same names, other numeric type -> accepted, converted
			p := mkPart(tgt, 3+3*boolInt(wideValues))
			p.SentNative = r.Pct(60)
			idc := tgt.idCol()
			cand := []int{}
			for j := range tgt.Cols {
				if j != idc {
					cand = append(cand, j)
				}
			}
			rt := -1
			sentTyp := ""
			if len(cand) > 0 {
				rt = cand[r.Intn(len(cand))]
				// any other numeric type; records whose value would make either
				// conversion step undefined (float out of the integer's range) are
				// not sent
				bt := tgt.Cols[rt].Typ
				for try := 0; try < 12 && sentTyp == ""; try++ {
					alt := allTypes[r.Intn(len(allTypes))]
					if alt == bt {
						continue
					}
					var keep []Rec
					for _, rec := range p.Recs {
						v := bucketColVal(tgt, rec.ID, rt, idc)
						if (p.SentNative || definedConv(v, alt)) && definedConv(p.sentVal(rec.ID, Col{Name: tgt.Cols[rt].Name, Typ: alt}, rt, idc), bt) {
							keep = append(keep, rec)
						}
					}
					if len(keep) > 0 {
						sentTyp = alt
						p.Recs = keep
					}
				}
				if sentTyp == "" {
					rt = -1
				}
			}
			for j, cc := range tgt.Cols {
				if j == rt {
					cc.Typ = sentTyp
				}
				p.Cols = append(p.Cols, cc)
				p.SrcIdx = append(p.SrcIdx, j)
			}
			if rt >= 0 {
				// expected stored value = convert(convert(v, sent type), bucket type)
				if tgt.Overrides == nil {
					tgt.Overrides = map[int64]map[string]interface{}{}
				}
				for _, rec := range p.Recs {
					tgt.Overrides[rec.ID] = map[string]interface{}{tgt.Cols[rt].Name: Convert(p.sentVal(rec.ID, p.Cols[rt], rt, idc), tgt.Cols[rt].Typ)}
				}
				res.AddDistinct(fmt.Sprintf("retype/%s->%s/native=%v/wide=%v", sentTyp, tgt.Cols[rt].Typ, p.SentNative, wideValues))
			}
			sc = scen{"retyped-column", &WOp{Kind: "write", W: []*WriteReq{{Variable: tgt.Variable, Parts: []*BucketWrite{p}}}}, false}
		default: // multi-bucket dataset in which one bucket does not match
			// the dataset uses b0's layout; another bucket matches iff its column
			// names are the same set (types may differ: that is a coercion)
			parts := []*BucketWrite{mkPart(b0, 2)}
			rej := false
			for _, other := range w.Buckets[1:] {
				po := mkPart(other, 2)
				po.Cols = append([]Col(nil), b0.Cols...)
				if riskyConv(other, po.Cols) {
					continue // float -> narrow integer out of range: not defined by "standard numeric conversion"
				}
				if !mapByName(other, po) {
					rej = true
				}
				parts = append(parts, po)
				if rej {
					break
				}
			}
			name := "multi-bucket-all-match"
			if rej {
				name = "multi-bucket-one-mismatch"
			}
			sc = scen{name, &WOp{Kind: "write", W: []*WriteReq{{Variable: b0.Variable, Parts: parts}}}, rej}
		}
		base := len(w.Ops)
		w.Ops = append(w.Ops, sc.op)
		// afterwards: let the flush ticker fire, then an unrelated valid write
		w.Ops = append(w.Ops, &WOp{Kind: "sleep", D: 1200 * time.Millisecond})
		ub := w.Buckets[len(w.Buckets)-1]
		w.Ops = append(w.Ops, &WOp{Kind: "write", W: []*WriteReq{{Variable: ub.Variable, Parts: []*BucketWrite{mkPart(ub, 2)}}}})
		w.Ops = append(w.Ops, &WOp{Kind: "sleep", D: 700 * time.Millisecond})
		res.AddDistinct(fmt.Sprintf("%s/%s/share=%v/bg=%v/n%d", sc.name, kindOf(b0), share, w.Node.BackgroundSync, len(w.Buckets)))
		runModelHistory("C14", w, res, func(mr *modelRun, i int, op *WOp, err error) {
			if i < base {
				if op.Kind == "write" && err != nil {
					mr.stop = true
					res.Count("baseline-write-rejected", 1)
				}
				if op.Kind == "write" && err == nil && i == base-1 {
					// the baseline must itself agree with the model, else this run says
					// nothing about schema validation (C08/C09 own that)
					mr.lastFeat = "baseline"
					if !checkAllBuckets(mr, "baseline") {
						mr.stop = true
					}
				}
				return
			}
			mr.lastFeat = sc.name
			switch i - base {
			case 0:
				if sc.reject && err == nil {
					// runModelHistory applied it to the model; the server accepted what it must reject
					mr.violate("accepted-mismatch", sc.name+"|accepted", fmt.Sprintf("request with mismatching columns was accepted: %s", op))
					mr.stop = true
					return
				}
				if !sc.reject && err != nil {
					mr.violate("rejected-match", sc.name+"|rejected|"+normMsg(err.Error()), fmt.Sprintf("request whose columns match by name was rejected: %s: %s", op, firstLine(err.Error())))
					mr.stop = true
					return
				}
				if !checkAllBuckets(mr, "right-after-request") {
					mr.stop = true
				}
			case 1:
				if !checkAllBuckets(mr, "after-flush-tick") {
					mr.stop = true
				}
			case 2:
				if err != nil {
					res.Count("followup-write-rejected", 1)
					mr.stop = true
					return
				}
				if !checkAllBuckets(mr, "after-next-write") {
					mr.stop = true
				}
			case 3:
				checkAllBuckets(mr, "after-next-write-and-tick")
			}
		})
		res.Sample(map[string]interface{}{"seed": seed, "scenario": sc.name, "ops": w.Describe()})
	}}
}

// ---- C15 ----

// genName returns a column name of exactly n bytes. One name in four is not
// plain ASCII: it mixes 2-, 3- and 4-byte UTF-8 characters (so that byte length
// and character count differ, which matters around the 32-byte header field).
func genName(r *simrt.Rand, n int) string {
	const al = "abcdefghijklmnopqrstuvwxyzABCDEFGHIJKLMNOPQRSTUVWXYZ0123456789_"
	if n >= 2 && r.Pct(25) {
		wide := []string{"é", "ß", "ж", "日", "本", "値", "終", "€", "😀", "𝛑"}
		var sb strings.Builder
		for sb.Len() < n {
			c := wide[r.Intn(len(wide))]
			if r.Pct(30) || sb.Len()+len(c) > n {
				c = string(al[r.Intn(len(al))])
			}
			sb.WriteString(c)
		}
		return sb.String()
	}
	b := make([]byte, n)
	for i := range b {
		b[i] = al[r.Intn(len(al))]
	}
	return string(b)
}

func sameSchema(want []Col, got []Col) string {
	if len(want) != len(got) {
		return fmt.Sprintf("%d columns reported, %d created", len(got), len(want))
	}
	for i := range want {
		if want[i].Name != got[i].Name {
			return fmt.Sprintf("column %d is named %q, created as %q (length %d)", i, clip(got[i].Name), clip(want[i].Name), len(want[i].Name))
		}
		if want[i].Typ != got[i].Typ {
			return fmt.Sprintf("column %q has type %s, created as %s", clip(want[i].Name), got[i].Typ, want[i].Typ)
		}
	}
	return ""
}

func clip(s string) string {
	if len(s) > 40 {
		return s[:37] + "..."
	}
	return s
}

func c15Engine() *Engine {
	return &Engine{Name: "MODEL", Run: func(seed uint64, tier string, res *Result) {
		r := simrt.NewRand(seed ^ 0x1515)
		tfs := []string{"1Sec", "1Min", "5Min", "15Min", "30Min", "1H", "2H", "4H", "1D", "1D", "1H"}
		b := &Bucket{Sym: "SCH", TF: tfs[r.Intn(len(tfs))], Attr: "A", Variable: r.Pct(40)}
		// column count: small mostly, sometimes large (format limit is 1024 in the header)
		ncols := 1 + r.Intn(6)
		switch r.Intn(10) {
		case 0:
			ncols = 30 + r.Intn(200)
		case 1:
			if tier == "thorough" {
				ncols = 900 + r.Intn(200)
			}
		}
		lenClass := r.Intn(6)
		idpos := r.Intn(ncols)
		used := map[string]bool{"Id": true}
		for j := 0; j < ncols; j++ {
			if j == idpos {
				b.Cols = append(b.Cols, Col{Name: "Id", Typ: "i8"})
				continue
			}
			n := 1 + r.Intn(8)
			switch lenClass {
			case 1:
				n = 31 + r.Intn(3) // around the 32-byte name field
			case 4:
				n = 30 + r.Intn(12) // just below / above it (wide characters: fewer than 32 characters)
			case 2:
				if j%3 == 0 {
					n = 33 + r.Intn(40)
				}
			case 3:
				if j%4 == 1 {
					n = 250 + r.Intn(60)
				}
			}
			name := genName(r, n)
			for tries := 0; used[name]; tries++ {
				if tries > 4 {
					n++ // short names run out when there are many columns
				}
				name = genName(r, n)
			}
			used[name] = true
			b.Cols = append(b.Cols, Col{Name: name, Typ: allTypes[r.Intn(len(allTypes))]})
		}
		longest := 0
		for _, c := range b.Cols {
			if len(c.Name) > longest {
				longest = len(c.Name)
			}
		}
		w := &Workload{Seed: seed, Buckets: []*Bucket{b}, Knobs: map[string]int{"WriteChannelCommandDepth": 4096}}
		w.Node.BackgroundSync = r.Pct(70)
		w.Node.WALRotateInterval = 1 + r.Intn(5)
		w.Sim = simrt.Config{Seed: seed, ShuffleMap: r.Pct(50)}
		c := &GenCfg{Years: []int{2021, 2022}, HotPct: 80, MaxRows: 4}
		hot := hotTimes(r, b, c)
		ids := &idGen{}
		w.Ops = append(w.Ops, &WOp{Kind: "create", B: b})
		nw := 1 + r.Intn(3)
		for i := 0; i < nw; i++ {
			recs := genRecs(r, c, b, hot, ids, 1+r.Intn(3))
			if r.Pct(50) {
				// the first interval of a year (1D: lands on index 0)
				y := 2021 + r.Intn(2)
				recs = append(recs, Rec{T: yearStart(y), ID: ids.next()})
				sort.SliceStable(recs, func(a, c int) bool { return recs[a].T < recs[c].T })
			}
			w.Ops = append(w.Ops, &WOp{Kind: "write", W: []*WriteReq{{Variable: b.Variable, Parts: []*BucketWrite{{B: b, Recs: recs}}}}})
			if r.Pct(30) {
				w.Ops = append(w.Ops, &WOp{Kind: "sleep", D: time.Duration(r.Intn(400)) * time.Second})
			}
		}
		if !w.Node.BackgroundSync {
			// a graceful restart without the background writer is C35's subject
			w.Node.BackgroundSync = true
		}
		w.Ops = append(w.Ops, &WOp{Kind: "restart"})
		res.AddDistinct(fmt.Sprintf("%s/%s/ncols%d/len%d/long%d", kindOf(b), b.TF, minInt(ncols, 40), lenClass, minInt(longest/8, 40)))
		created := false
		feat := fmt.Sprintf("%s|name<=%d", kindOf(b), bucketLen(longest))
		checkInfo := func(mr *modelRun, when string) bool {
			inf, err := mr.node.GetInfo(b.Key())
			mr.res.Evals++
			if err != nil {
				mr.violate("getinfo-error", "getinfo-error|"+when+"|"+feat+"|"+normMsg(err.Error()), fmt.Sprintf("%s: GetInfo(%s) fails: %s", when, b.Key(), firstLine(err.Error())))
				return false
			}
			if d := sameSchema(b.Cols, inf.Cols); d != "" {
				// the known index-0 defect of 1D buckets writes the January 1 bar at
				// Headersize-recordLength, i.e. backwards into the header: with a very wide
				// record (hundreds of columns) it reaches the stored column types and names
				cause := ""
				if b.TF == "1D" {
					for _, o := range w.Ops {
						if o.Kind != "write" {
							continue
						}
						for _, wr := range o.W {
							for _, pt := range wr.Parts {
								for _, rcd := range pt.Recs {
									if IntervalStart(rcd.T, b.TFDur()) == yearStart(time.Unix(0, rcd.T).UTC().Year()) {
										cause = "|1D-first-interval-of-year-written"
									}
								}
							}
						}
					}
				}
				mr.violate("schema-differs", "schema-differs|"+when+"|"+feat+"|"+schemaDiffClass(d)+cause, fmt.Sprintf("%s: %s reports a different schema than it was created with: %s", when, b.Key(), d))
				return false
			}
			if inf.TF != b.TFDur() {
				mr.violate("tf-differs", "tf-differs|"+when+"|"+b.TF, fmt.Sprintf("%s: %s reports timeframe %v, created %s", when, b.Key(), inf.TF, b.TF))
				return false
			}
			if inf.Variable != b.Variable {
				mr.violate("rectype-differs", "rectype-differs|"+when+"|"+kindOf(b), fmt.Sprintf("%s: %s reports variable=%v, created %v", when, b.Key(), inf.Variable, b.Variable))
				return false
			}
			return true
		}
		runModelHistory("C15", w, res, func(mr *modelRun, i int, op *WOp, err error) {
			switch op.Kind {
			case "create":
				if err != nil {
					// rejecting a schema that cannot be stored faithfully is allowed
					res.Count("create-rejected", 1)
					mr.stop = true
					return
				}
				created = true
				if !checkInfo(mr, "after-create") {
					mr.stop = true
				}
			case "write":
				if err != nil {
					mr.violate("write-rejected", "write-rejected|"+feat+"|"+normMsg(err.Error()), fmt.Sprintf("write matching the created schema was rejected: %s", firstLine(err.Error())))
					mr.stop = true
				}
			case "restart":
				if err != nil {
					mr.violate("restart-failed", "restart-failed|"+feat+"|"+normMsg(err.Error()), "graceful restart failed: "+firstLine(err.Error()))
					return
				}
				if !created {
					return
				}
				if !checkInfo(mr, "after-restart") {
					return
				}
				// the schema is still enforced: a matching write is accepted, a mismatching one rejected
				good := &WriteReq{Variable: b.Variable, Parts: []*BucketWrite{{B: b, Recs: []Rec{{T: yearStart(2021) + 40*24*int64(time.Hour), ID: ids.next()}}}}}
				if e := mr.node.Write(good); e != nil {
					mr.violate("write-rejected-after-restart", "write-rejected-after-restart|"+feat+"|"+normMsg(e.Error()), "after restart a write matching the created schema is rejected: "+firstLine(e.Error()))
					return
				}
				mr.model.ApplyWrite(good)
				bad := &BucketWrite{B: b, Recs: []Rec{{T: yearStart(2021) + 41*24*int64(time.Hour), ID: ids.next()}}}
				for j, cc := range b.Cols {
					if j == idpos {
						cc.Name = "IdX"
					}
					bad.Cols = append(bad.Cols, cc)
					bad.SrcIdx = append(bad.SrcIdx, j)
				}
				if e := mr.node.Write(&WriteReq{Variable: b.Variable, Parts: []*BucketWrite{bad}}); e == nil {
					mr.violate("mismatch-accepted-after-restart", "mismatch-accepted-after-restart|"+feat, "after restart a write with a renamed column is accepted")
					return
				}
				mr.lastFeat = ""
				checkBucketAll(mr, b.Key())
			}
		})
		res.Sample(map[string]interface{}{"seed": seed, "bucket": b.Key(), "variable": b.Variable, "columns": len(b.Cols), "longest_name": longest, "ops": len(w.Ops)})
	}}
}

func bucketLen(n int) int {
	for _, l := range []int{31, 32, 64, 255, 1024} {
		if n <= l {
			return l
		}
	}
	return 100000
}

func schemaDiffClass(d string) string {
	switch {
	case strings.Contains(d, "columns reported"):
		return "column-count"
	case strings.Contains(d, "is named"):
		return "name"
	default:
		return "type"
	}
}

func init() {
	Engines["C14"] = c14Engine()
	Engines["C15"] = c15Engine()
}
