package harness

import (
	"errors"
	"fmt"
	"sort"
	"strings"
	"time"

	"github.com/alpacahq/marketstore/v4/cmd/connect/loader"
	"github.com/alpacahq/marketstore/v4/frontend"
	mio "github.com/alpacahq/marketstore/v4/utils/io"
	"github.com/alpacahq/marketstore/v4/zzverif/simos"
	"github.com/alpacahq/marketstore/v4/zzverif/simrt"
)

// ---------------------------------------------------------------------------
// STREAM engine (C33): the CSV import loop of cmd/connect (ReadMetadata, then
// CSVtoNumpyMulti chunk by chunk, each chunk written through the server) is
// driven on a data file living on the simulated disk; the disk injects read
// errors at every byte offset and short reads of every size, and the file is
// damaged with one malformed row at every row position.
// ---------------------------------------------------------------------------

type csvCase struct {
	kind      string // clean | read-error | short-read | bad-field-count | bad-number | bad-time | stray-quote
	pos       int    // byte offset / read size / row index
	chunkSize int
	content   string
	mustErr   bool // the file is not loadable: an error must be reported
}

const csvCtl = "firstRowHasColumnNames: true\ntimeFormat: \"20060102 15:04:05\"\ntimeZone: \"UTC\"\n"

// loadCSV mirrors session.load's loop around the real loader functions.
func loadCSV(n *Node, b *Bucket, dataPath, ctlPath string, chunkSize int) (err error) {
	defer func() {
		if r := recover(); r != nil {
			err = &APIError{Msg: fmt.Sprintf("PANIC: %v", r), Panic: true}
		}
	}()
	inf, e := n.GetInfo(b.Key())
	if e != nil {
		return e
	}
	_ = inf
	var resp frontend.MultiGetInfoResponse
	if e := n.DS.GetInfo(nil, &frontend.MultiKeyRequest{Requests: []frontend.KeyRequest{{Key: b.Key()}}}, &resp); e != nil {
		return e
	}
	dsv := resp.Responses[0].DSV
	isVar := resp.Responses[0].RecordType == mio.VARIABLE
	dataFD, e := simos.Open(dataPath)
	if e != nil {
		return e
	}
	defer dataFD.Close()
	ctlFD, e := simos.Open(ctlPath)
	if e != nil {
		return e
	}
	csvReader, cvm, e := loader.ReadMetadata(dataFD, ctlFD, dsv)
	if e != nil {
		return e
	}
	tbk := mio.NewTimeBucketKey(b.Key())
	for {
		npm, endReached, e := loader.CSVtoNumpyMulti(csvReader, *tbk, cvm, chunkSize, isVar)
		if e != nil {
			return e
		}
		if npm != nil {
			var wr frontend.MultiServerResponse
			if e := n.DS.Write(nil, &frontend.MultiWriteRequest{Requests: []frontend.WriteRequest{{Data: npm, IsVariableLength: isVar}}}, &wr); e != nil {
				return e
			}
			if len(wr.Responses) != 0 {
				return errors.New(wr.Responses[0].Error)
			}
		}
		if endReached {
			break
		}
	}
	return nil
}

func c33Engine() *Engine {
	return &Engine{Name: "STREAM", Run: func(seed uint64, tier string, res *Result) {
		r := simrt.NewRand(seed ^ 0x3333)
		// bucket schema and rows
		b := &Bucket{Sym: "CSV", TF: []string{"1Min", "1H", "1D", "5Min"}[r.Intn(4)], Attr: "DATA"}
		b.Cols = []Col{{Name: "Id", Typ: "i8"}}
		for j := 0; j < 1+r.Intn(3); j++ {
			b.Cols = append(b.Cols, Col{Name: fmt.Sprintf("V%d", j), Typ: []string{"f4", "f8", "i4", "i2", "u4", "i8"}[r.Intn(6)]})
		}
		// in 2 runs of 5 the last CSV column is a string16 column (quoting matters there)
		strLast := r.Pct(40)
		if strLast {
			b.Cols = append(b.Cols, Col{Name: "Memo", Typ: "U16"})
		}
		nrows := 1 + r.Intn(40)
		if r.Pct(15) {
			nrows = 100 + r.Intn(100)
		}
		tfd := int64(b.TFDur())
		base := time.Date(2021, 2, 1, 0, 0, 0, 0, time.UTC).UnixNano()
		var recs []Rec
		for i := 0; i < nrows; i++ {
			recs = append(recs, Rec{T: base + int64(i)*tfd, ID: int64(i + 1)})
		}
		if time.Unix(0, recs[len(recs)-1].T).UTC().Year() != 2021 {
			recs = recs[:200]
			nrows = len(recs)
		}
		header := "Epoch"
		for _, c := range b.Cols {
			header += "," + c.Name
		}
		idc := b.idCol()
		lines := []string{header}
		for _, rc := range recs {
			l := time.Unix(0, rc.T).UTC().Format("20060102 15:04:05")
			for j := range b.Cols {
				v := bucketColVal(b, rc.ID, j, idc)
				if a, ok := v.([16]rune); ok {
					l += "," + Str16Text(a)
				} else {
					l += "," + fmt.Sprint(v)
				}
			}
			lines = append(lines, l)
		}
		clean := strings.Join(lines, "\n") + "\n"
		chunks := []int{1, 2, nrows - 1, nrows, nrows + 1, 1000000}
		pickChunk := func() int {
			c := chunks[r.Intn(len(chunks))]
			if c < 1 {
				c = 1
			}
			return c
		}
		var cases []csvCase
		cases = append(cases, csvCase{kind: "clean", chunkSize: 1000000, content: clean})
		// two imports in one session: a file with a header row and a control file
		// that says so, then a header-less file whose control file names the columns
		// and leaves the other keys at their defaults (nothing of the first import's
		// configuration may carry over)
		headerless := strings.Join(lines[1:], "\n") + "\n"
		for _, cs := range []int{1, 3, 1000000} {
			cases = append(cases, csvCase{kind: "second-import-headerless", chunkSize: cs, content: headerless})
		}
		for _, cs := range chunks {
			if cs >= 1 {
				cases = append(cases, csvCase{kind: "clean", chunkSize: cs, content: clean})
			}
		}
		// read error at every byte offset (all for small files, else a sample)
		offs := []int{}
		if len(clean) <= 600 || tier == "thorough" && len(clean) <= 4000 {
			for o := 0; o < len(clean); o++ {
				offs = append(offs, o)
			}
		} else {
			for i := 0; i < 150; i++ {
				offs = append(offs, r.Intn(len(clean)))
			}
			// always the row boundaries
			for o := 0; o < len(clean); o++ {
				if clean[o] == '\n' {
					offs = append(offs, o, o+1)
				}
			}
		}
		for _, o := range offs {
			if o < len(clean) {
				cases = append(cases, csvCase{kind: "read-error", pos: o, chunkSize: pickChunk(), content: clean})
			}
		}
		// short reads of every size up to 64, then a sample
		for s := 1; s <= 64 && s <= len(clean); s++ {
			cases = append(cases, csvCase{kind: "short-read", pos: s, chunkSize: pickChunk(), content: clean})
		}
		// one malformed row at every row position
		rowsToDamage := make([]int, 0, nrows)
		for i := 1; i <= nrows; i++ {
			if nrows <= 60 || r.Pct(40) || i == 1 || i == nrows {
				rowsToDamage = append(rowsToDamage, i)
			}
		}
		for _, i := range rowsToDamage {
			mod := func(f func(string) string) string {
				ls := append([]string{}, lines...)
				ls[i] = f(ls[i])
				return strings.Join(ls, "\n") + "\n"
			}
			cases = append(cases,
				csvCase{kind: "bad-field-count", pos: i, chunkSize: pickChunk(), mustErr: true, content: mod(func(l string) string { return l + ",99" })},
				csvCase{kind: "bad-field-count", pos: i, chunkSize: pickChunk(), mustErr: true, content: mod(func(l string) string { return l[:strings.LastIndex(l, ",")] })},
				csvCase{kind: "bad-number", pos: i, chunkSize: pickChunk(), mustErr: true, content: mod(func(l string) string {
					// the last numeric field (the string column takes any text)
					if strLast {
						f := strings.Split(l, ",")
						f[len(f)-2] = "x1y"
						return strings.Join(f, ",")
					}
					return l[:strings.LastIndex(l, ",")] + ",x1y"
				})},
				csvCase{kind: "bad-time", pos: i, chunkSize: pickChunk(), mustErr: true, content: mod(func(l string) string { return "2021-13-45 99:99" + l[strings.Index(l, ","):] })},
				csvCase{kind: "stray-quote", pos: i, chunkSize: pickChunk(), mustErr: true, content: mod(func(l string) string { return l[:10] + "\"" + l[10:] })},
			)
			if strLast {
				cases = append(cases,
					// a quote opened at the start of the last field and never closed
					csvCase{kind: "unterminated-quote", pos: i, chunkSize: pickChunk(), mustErr: true, content: mod(func(l string) string { return l[:strings.LastIndex(l, ",")] + ",\"halted" })},
					// a bare quote inside the last field
					csvCase{kind: "bare-quote", pos: i, chunkSize: pickChunk(), mustErr: true, content: mod(func(l string) string { return l + "\"x" })},
				)
			}
		}
		res.Runs++
		// one simulation per case: fresh disk, fresh server
		for ci, cs := range cases {
			cs := cs
			fs := simos.New()
			fs.MkdirAll(dataRoot, 0o755)
			fs.MkdirAll("/import", 0o755)
			simos.Cur = fs
			applyKnobs(map[string]int{"WriteChannelCommandDepth": 4096})
			wf := func(p, c string) {
				f, _ := fs.OpenFile(p, 0x42, 0o644)
				f.Write([]byte(c))
				f.Close()
			}
			wf("/import/data.csv", cs.content)
			wf("/import/ctl.yaml", csvCtl)
			if cs.kind == "second-import-headerless" {
				wf("/import/first.csv", clean)
				wf("/import/first.yaml", csvCtl)
				wf("/import/ctl.yaml", "columnNameMap: ["+header+"]\ntimeFormat: \"20060102 15:04:05\"\n")
			}
			var loadErr error
			var rows []OutRow
			var qerr error
			injected := false
			s := simrt.Run(simrt.Config{Seed: seed + uint64(ci)}, func() {
				n, err := StartNode(dataRoot, NodeOpts{BackgroundSync: false})
				if err != nil {
					return
				}
				if e := n.Create(b); e != nil {
					return
				}
				if cs.kind == "second-import-headerless" {
					b1 := &Bucket{Sym: "CSVFIRST", TF: b.TF, Attr: b.Attr, Cols: b.Cols}
					if e := n.Create(b1); e != nil {
						return
					}
					if e := loadCSV(n, b1, "/import/first.csv", "/import/first.yaml", 1000000); e != nil {
						return // the first, ordinary import is judged by the "clean" cases
					}
				}
				switch cs.kind {
				case "read-error":
					fs.ReadHook = func(path string, off int64, nb int) (int, error) {
						if path != "/import/data.csv" {
							return nb, nil
						}
						if off >= int64(cs.pos) {
							injected = true
							return 0, errors.New("input/output error")
						}
						if off+int64(nb) > int64(cs.pos) {
							return int(int64(cs.pos) - off), nil // up to the bad sector
						}
						return nb, nil
					}
				case "short-read":
					fs.ReadHook = func(path string, off int64, nb int) (int, error) {
						if path == "/import/data.csv" && nb > cs.pos {
							injected = true
							return cs.pos, nil
						}
						return nb, nil
					}
				}
				loadErr = loadCSV(n, b, "/import/data.csv", "/import/ctl.yaml", cs.chunkSize)
				fs.ReadHook = nil
				got, e := n.Query(&QuerySpec{Dest: b.Key()})
				qerr = e
				rows = got[b.Key()]
			})
			res.Evals++
			res.Count("case-"+cs.kind, 1)
			if injected {
				res.Count("fault-fired-"+cs.kind, 1)
			}
			res.AddDistinct(fmt.Sprintf("%s/%d/chunk%d/rows%d/%s", cs.kind, cs.pos, cs.chunkSize, nrows, b.TF))
			mk := func(class, sig, detail string) {
				res.AddViolation(&Violation{Prop: "C33", Class: class, Sig: "C33|" + sig, Seed: seed,
					Detail: fmt.Sprintf("CSV of %d data rows (%d bytes), chunk size %d, case %s at %d: %s", nrows, len(cs.content), cs.chunkSize, cs.kind, cs.pos, detail),
					Replay: map[string]interface{}{"engine": "stream", "case": cs.kind, "pos": cs.pos, "chunk": cs.chunkSize, "bucket": b.Key(), "columns": b.Cols, "rows": nrows}})
			}
			if s.Err != nil {
				mk("hang", "hang|"+cs.kind, "import did not finish: "+s.Err.Error())
				continue
			}
			if ae, ok := loadErr.(*APIError); ok && ae.Panic {
				mk("import-panic", "import-panic|"+cs.kind+"|"+normMsg(ae.Msg), "the import loop panicked: "+firstLine(ae.Msg))
				continue
			}
			if loadErr != nil {
				if cs.kind == "clean" || cs.kind == "second-import-headerless" {
					res.Count("wellformed-import-reported-error: "+cs.kind+": "+normMsg(loadErr.Error()), 1)
				}
				continue // an error was reported: allowed in every case
			}
			res.Count("import-completed-"+cs.kind, 1)
			// no error reported: every data row must be there with its values
			if cs.mustErr {
				// a file with a malformed row cannot be loaded completely
				mk("silent-drop", "silent-drop|"+cs.kind, fmt.Sprintf("the file has a malformed row %d but the import reported success; %d of %d rows are stored", cs.pos, len(rows), nrows))
				continue
			}
			if qerr != nil {
				mk("silent-drop", "silent-drop|"+cs.kind+"|query-error", "import reported success but the bucket cannot be queried: "+firstLine(qerr.Error()))
				continue
			}
			mb := &MBucket{B: b, Fixed: map[int64]int64{}}
			for _, rc := range recs {
				mb.Fixed[IntervalStart(rc.T, b.TFDur())] = rc.ID
			}
			if mm := CompareAll(mb, rows); mm != nil {
				mk("silent-drop", "silent-drop|"+cs.kind+"|"+mm.Class, fmt.Sprintf("import reported success but the bucket differs from the file: %s (%d of %d rows stored)", mm.Detail, len(rows), nrows))
			}
		}
		kinds := map[string]int{}
		for _, cs := range cases {
			kinds[cs.kind]++
		}
		var ks []string
		for k, n := range kinds {
			ks = append(ks, fmt.Sprintf("%s:%d", k, n))
		}
		sort.Strings(ks)
		res.Sample(map[string]interface{}{"seed": seed, "bucket": b.Key(), "columns": b.Cols, "data_rows": nrows, "file_bytes": len(clean), "cases": ks, "first_lines": lines[:minInt(3, len(lines))]})
	}}
}

func init() {
	Engines["C33"] = c33Engine()
}
