package harness

import (
	"fmt"
	"strings"

	"github.com/alpacahq/marketstore/v4/zzverif/simos"
	"github.com/alpacahq/marketstore/v4/zzverif/simrt"
)

type powerImage struct {
	kind    string
	fs      *simos.FS
	dropped []*simos.Op // un-synced data operations that were dropped or torn
}

// powerImages builds the bounded family of power-loss images at crash point k:
// every data operation (write / truncate) not yet covered by an fsync of its
// file or a global sync may be dropped, or torn at 512-byte sectors. Namespace
// operations are durable at once (assumption A-meta).
func powerImages(base *simos.FS, log []*simos.Op, synced []int, k, randomSets int, rng *simrt.Rand) []powerImage {
	var U []int
	for i := 0; i < k; i++ {
		if log[i].DataOp() && synced[i] >= k {
			U = append(U, i)
		}
	}
	var lastDropped []*simos.Op
	build := func(keep func(i int) bool, tear func(i int) func(int) bool) *simos.FS {
		lastDropped = nil
		img := base.Clone()
		for i := 0; i < k; i++ {
			op := log[i]
			if !op.Mutating() {
				continue
			}
			if op.DataOp() && synced[i] >= k {
				if !keep(i) {
					lastDropped = append(lastDropped, op)
					continue
				}
				if tear != nil {
					if t := tear(i); t != nil {
						lastDropped = append(lastDropped, op)
						img.ApplyTorn(op, t)
						continue
					}
				}
			}
			img.Apply(op)
		}
		return img
	}
	var out []powerImage
	seen := map[uint64]bool{}
	add := func(kind string, fs *simos.FS) {
		h := fs.Hash(dataRoot)
		if seen[h] {
			return
		}
		seen[h] = true
		out = append(out, powerImage{kind, fs, lastDropped})
	}
	add("power:none-kept", build(func(int) bool { return false }, nil))
	if len(U) == 0 {
		return out
	}
	isWAL := func(i int) bool { return strings.HasSuffix(log[i].Path, ".walfile") }
	isIdx := func(i int) bool { return log[i].Kind == simos.OpWrite && len(log[i].Data) == 24 && !isWAL(i) }
	add("power:wal-only", build(func(i int) bool { return isWAL(i) }, nil))
	add("power:primary-only", build(func(i int) bool { return !isWAL(i) }, nil))
	add("power:index-only", build(func(i int) bool { return isWAL(i) || isIdx(i) }, nil))
	add("power:data-only", build(func(i int) bool { return isWAL(i) || !isIdx(i) }, nil))
	sel := U
	if len(sel) > 10 {
		sel = make([]int, 0, 10)
		for len(sel) < 10 {
			sel = append(sel, U[rng.Intn(len(U))])
		}
	}
	for _, x := range sel {
		x := x
		add(fmt.Sprintf("power:drop-one:%d", x), build(func(i int) bool { return i != x }, nil))
		add(fmt.Sprintf("power:keep-one:%d", x), build(func(i int) bool { return i == x }, nil))
	}
	for n := 0; n < randomSets; n++ {
		mask := map[int]bool{}
		torn := map[int]uint64{}
		pk := 20 + rng.Intn(70)
		for _, i := range U {
			if rng.Pct(pk) {
				mask[i] = true
				if rng.Pct(25) {
					torn[i] = rng.U64() | 1
				}
			}
		}
		add(fmt.Sprintf("power:random:%d", n), build(func(i int) bool { return mask[i] },
			func(i int) func(int) bool {
				sd, ok := torn[i]
				if !ok {
					return nil
				}
				r := simrt.NewRand(sd)
				bits := r.U64()
				return func(sector int) bool { return bits>>(uint(sector)%64)&1 == 1 }
			}))
	}
	return out
}
