package harness

import (
	"fmt"
	"strings"

	"github.com/alpacahq/marketstore/v4/zzverif/simos"
	"github.com/alpacahq/marketstore/v4/zzverif/simrt"
)

type powerImage struct {
	kind    string
	fs      *simos.FS
	dropped []*simos.Op // un-synced data operations that were dropped or torn
}

// powerImages builds the bounded family of power-loss images at crash point k:
// every data operation (write / truncate) not yet covered by an fsync of its
// file or a global sync may be dropped, or torn at 512-byte sectors. Namespace
// operations are durable at once (assumption A-meta).
func powerImages(base *simos.FS, log []*simos.Op, synced []int, k, randomSets int, rng *simrt.Rand) []powerImage {
	var U []int
	for i := 0; i < k; i++ {
		if log[i].DataOp() && synced[i] >= k {
			U = append(U, i)
		}
	}
	var lastDropped []*simos.Op
	// Within one 512-byte sector the disk holds the page-cache content of SOME
	// moment: a later write to a sector cannot persist without the earlier
	// un-synced writes to that same sector. So an image is a per-sector prefix:
	// keeping (a sector of) a write first applies, for that sector, every
	// earlier un-synced write that was dropped or torn there. Across sectors any
	// combination is possible (and is what is sampled).
	type pend struct {
		op   *simos.Op
		done map[int64]bool
	}
	build := func(keep func(i int) bool, tear func(i int) func(int) bool) *simos.FS {
		lastDropped = nil
		img := base.Clone()
		pending := map[int][]*pend{}
		applyKept := func(op *simos.Op, keepAbs func(int64) bool, torn bool) {
			f0, l0 := op.Sectors()
			for _, d := range pending[op.Ino] {
				df, dl := d.op.Sectors()
				if dl < f0 || df > l0 {
					continue
				}
				img.ApplySectors(d.op, func(a int64) bool {
					if a < f0 || a > l0 || !keepAbs(a) || d.done[a] {
						return false
					}
					d.done[a] = true
					return true
				}, false)
			}
			img.ApplySectors(op, keepAbs, true)
			if torn {
				p := &pend{op: op, done: map[int64]bool{}}
				for a := f0; a <= l0; a++ {
					if keepAbs(a) {
						p.done[a] = true
					}
				}
				pending[op.Ino] = append(pending[op.Ino], p)
			}
		}
		for i := 0; i < k; i++ {
			op := log[i]
			if !op.Mutating() {
				continue
			}
			if op.DataOp() && synced[i] >= k {
				if !keep(i) {
					lastDropped = append(lastDropped, op)
					if op.Kind == simos.OpWrite {
						pending[op.Ino] = append(pending[op.Ino], &pend{op: op, done: map[int64]bool{}})
					}
					continue
				}
				if op.Kind == simos.OpWrite {
					if tear != nil {
						if t := tear(i); t != nil {
							lastDropped = append(lastDropped, op)
							f0, _ := op.Sectors()
							applyKept(op, func(a int64) bool { return t(int(a - f0)) }, true)
							continue
						}
					}
					applyKept(op, func(int64) bool { return true }, false)
					continue
				}
			}
			img.Apply(op)
		}
		return img
	}
	var out []powerImage
	seen := map[uint64]bool{}
	add := func(kind string, fs *simos.FS) {
		h := fs.Hash(dataRoot)
		if seen[h] {
			return
		}
		seen[h] = true
		out = append(out, powerImage{kind, fs, lastDropped})
	}
	add("power:none-kept", build(func(int) bool { return false }, nil))
	if len(U) == 0 {
		return out
	}
	isWAL := func(i int) bool { return strings.HasSuffix(log[i].Path, ".walfile") }
	isIdx := func(i int) bool { return log[i].Kind == simos.OpWrite && len(log[i].Data) == 24 && !isWAL(i) }
	add("power:wal-only", build(func(i int) bool { return isWAL(i) }, nil))
	add("power:primary-only", build(func(i int) bool { return !isWAL(i) }, nil))
	add("power:index-only", build(func(i int) bool { return isWAL(i) || isIdx(i) }, nil))
	add("power:data-only", build(func(i int) bool { return isWAL(i) || !isIdx(i) }, nil))
	sel := U
	if len(sel) > 10 {
		sel = make([]int, 0, 10)
		for len(sel) < 10 {
			sel = append(sel, U[rng.Intn(len(U))])
		}
	}
	for _, x := range sel {
		x := x
		add(fmt.Sprintf("power:drop-one:%d", x), build(func(i int) bool { return i != x }, nil))
		add(fmt.Sprintf("power:keep-one:%d", x), build(func(i int) bool { return i == x }, nil))
	}
	for n := 0; n < randomSets; n++ {
		mask := map[int]bool{}
		torn := map[int]uint64{}
		pk := 20 + rng.Intn(70)
		for _, i := range U {
			if rng.Pct(pk) {
				mask[i] = true
				if rng.Pct(25) {
					torn[i] = rng.U64() | 1
				}
			}
		}
		add(fmt.Sprintf("power:random:%d", n), build(func(i int) bool { return mask[i] },
			func(i int) func(int) bool {
				sd, ok := torn[i]
				if !ok {
					return nil
				}
				r := simrt.NewRand(sd)
				bits := r.U64()
				return func(sector int) bool { return bits>>(uint(sector)%64)&1 == 1 }
			}))
	}
	return out
}
