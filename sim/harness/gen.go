package harness

import (
	"fmt"
	"sort"
	"strings"
	"time"

	"github.com/alpacahq/marketstore/v4/zzverif/simrt"
)

// WOp is one generated operation of a workload.
type WOp struct {
	Kind string // create write query destroy restart sleep getinfo list
	B    *Bucket
	W    []*WriteReq
	Q    *QuerySpec
	D    time.Duration
	Key  string
}

func (o *WOp) String() string {
	switch o.Kind {
	case "create":
		return fmt.Sprintf("create %s var=%v cols=%v", o.B.Key(), o.B.Variable, o.B.Cols)
	case "write":
		var parts []string
		for _, w := range o.W {
			for _, p := range w.Parts {
				var rs []string
				for i, r := range p.Recs {
					if i >= 6 {
						rs = append(rs, fmt.Sprintf("…+%d", len(p.Recs)-6))
						break
					}
					rs = append(rs, fmt.Sprintf("%s#%d", ts(r.T), r.ID))
				}
				s := fmt.Sprintf("%s[%s]", p.B.Key(), strings.Join(rs, " "))
				if p.Cols != nil {
					s += fmt.Sprintf(" sent-cols=%v", p.Cols)
				}
				parts = append(parts, s)
			}
		}
		return "write " + strings.Join(parts, " + ")
	case "query":
		return "query " + o.Q.String()
	case "sleep":
		return "sleep " + o.D.String()
	case "destroy", "getinfo":
		return o.Kind + " " + o.Key
	}
	return o.Kind
}

// Workload is everything that defines one run besides the schedule tape.
type Workload struct {
	Seed    uint64
	Buckets []*Bucket
	Ops     []*WOp
	Node    NodeOpts
	Sim     simrt.Config
	Knobs   map[string]int
	Clients int
}

func (w *Workload) Describe() []string {
	var out []string
	out = append(out, fmt.Sprintf("node: bgsync=%v rotate=%d novarcomp=%v knobs=%v preempt=%d%% shuffle=%v",
		w.Node.BackgroundSync, w.Node.WALRotateInterval, w.Node.DisableVarComp, w.Knobs, w.Sim.PreemptPct, w.Sim.ShuffleMap))
	for _, o := range w.Ops {
		out = append(out, o.String())
	}
	return out
}

// GenCfg parameterises the generator; each property uses its own profile.
type GenCfg struct {
	TFs         []string // candidate timeframes (weighted by repetition)
	MinBuckets  int
	MaxBuckets  int
	VarPct      int // percent of buckets that are variable-length
	MinOps      int
	MaxOps      int
	MaxRows     int
	BigRowsPct  int // percent of writes with >=100 rows (buffile batch path)
	MultiPct    int // percent of writes addressing several buckets
	SleepPct    int // percent of ops that are sleeps (let tickers fire)
	RestartPct  int // graceful restarts as operations
	QueryPct    int
	PreCreate   bool     // create buckets explicitly (else first write auto-creates)
	AvoidKnown  bool     // stay away from inputs that trigger defects owned by other properties
	AllTypes    bool     // draw column types from all element types
	Years       []int    // candidate years
	Syms        []string // symbol names
	BgSyncPct   int      // percent of runs with the background WAL writer
	MaxSleep    time.Duration
	HotPct      int // percent of timestamps drawn from the per-bucket hot set
	UnsortedPct int
}

var allTypes = []string{"i1", "i2", "i4", "i8", "u1", "u2", "u4", "u8", "f4", "f8"}

// nextID hands out unique record ids for a workload.
type idGen struct{ n int64 }

func (g *idGen) next() int64 { g.n++; return g.n }

func genBucket(r *simrt.Rand, c *GenCfg, sym string, i int) *Bucket {
	b := &Bucket{Sym: sym, TF: c.TFs[r.Intn(len(c.TFs))], Attr: "TICK"}
	b.Variable = r.Pct(c.VarPct)
	if !b.Variable {
		b.Attr = "OHLCV"
	}
	ncols := 1 + r.Intn(4)
	idpos := r.Intn(ncols)
	for j := 0; j < ncols; j++ {
		if j == idpos {
			b.Cols = append(b.Cols, Col{Name: "Id", Typ: "i8"})
			continue
		}
		typ := "f4"
		if c.AllTypes {
			typ = allTypes[r.Intn(len(allTypes))]
		} else {
			typ = []string{"f4", "f8", "i4", "i8"}[r.Intn(4)]
		}
		b.Cols = append(b.Cols, Col{Name: fmt.Sprintf("C%d", j), Typ: typ})
	}
	return b
}

func yearStart(y int) int64 { return time.Date(y, 1, 1, 0, 0, 0, 0, time.UTC).UnixNano() }

// hotTimes returns a small set of interesting instants for the bucket.
func hotTimes(r *simrt.Rand, b *Bucket, c *GenCfg) []int64 {
	tf := int64(b.TFDur())
	var h []int64
	for _, y := range c.Years {
		ys, ye := yearStart(y), yearStart(y+1)
		if !(c.AvoidKnown && b.TF == "1D") {
			h = append(h, ys) // first interval of the year
		} else {
			h = append(h, ys+tf)
		}
		h = append(h, ye-tf) // last interval of the year
		h = append(h, ye-1)  // last nanosecond
		h = append(h, ys+int64(r.Intn(300)+1)*24*int64(time.Hour)+int64(r.Intn(86400))*1e9)
		if y%4 == 0 {
			h = append(h, time.Date(y, 2, 29, 12, 0, 0, 0, time.UTC).UnixNano())
		}
	}
	return h
}

func genTime(r *simrt.Rand, b *Bucket, c *GenCfg, hot []int64) int64 {
	tf := int64(b.TFDur())
	var t int64
	if r.Pct(c.HotPct) {
		t = hot[r.Intn(len(hot))]
		// stay inside the same interval but move within it
		st := IntervalStart(t, b.TFDur())
		switch r.Intn(4) {
		case 0:
			t = st
		case 1:
			t = st + tf - 1
		case 2:
			t = st + r.Int63n(tf)
		}
	} else {
		y := c.Years[r.Intn(len(c.Years))]
		t = yearStart(y) + r.Int63n(yearStart(y+1)-yearStart(y))
	}
	if !b.Variable {
		// fixed buckets are written at whole seconds (Epoch column only)
		t = floorDiv(t, 1e9) * 1e9
	}
	if c.AvoidKnown && b.TF == "1D" && IntervalStart(t, b.TFDur()) == yearStart(time.Unix(0, t).UTC().Year()) {
		t += tf
	}
	return t
}

// Gen generates a workload from a seed.
func Gen(seed uint64, c *GenCfg) *Workload {
	r := simrt.NewRand(seed)
	w := &Workload{Seed: seed, Knobs: map[string]int{}}
	nb := c.MinBuckets + r.Intn(c.MaxBuckets-c.MinBuckets+1)
	syms := c.Syms
	if len(syms) == 0 {
		syms = []string{"AAPL", "TSLA", "NVDA", "MSFT"}
	}
	hot := map[*Bucket][]int64{}
	used := map[string]bool{}
	for i := 0; i < nb; i++ {
		b := genBucket(r, c, syms[i%len(syms)], i)
		for used[b.Key()] {
			b.Sym += "X"
		}
		used[b.Key()] = true
		w.Buckets = append(w.Buckets, b)
		hot[b] = hotTimes(r, b, c)
	}
	ids := &idGen{}
	if c.PreCreate {
		for _, b := range w.Buckets {
			w.Ops = append(w.Ops, &WOp{Kind: "create", B: b})
		}
	}
	nops := c.MinOps + r.Intn(c.MaxOps-c.MinOps+1)
	for i := 0; i < nops; i++ {
		p := r.Intn(100)
		switch {
		case p < c.SleepPct:
			d := time.Duration(r.Int63n(int64(c.MaxSleep))) + time.Millisecond
			if r.Pct(40) {
				d = time.Duration(r.Intn(2000)) * time.Millisecond
			}
			w.Ops = append(w.Ops, &WOp{Kind: "sleep", D: d})
		case p < c.SleepPct+c.RestartPct:
			w.Ops = append(w.Ops, &WOp{Kind: "restart"})
		case p < c.SleepPct+c.RestartPct+c.QueryPct:
			b := w.Buckets[r.Intn(len(w.Buckets))]
			w.Ops = append(w.Ops, &WOp{Kind: "query", Q: &QuerySpec{Dest: b.Key()}})
		default:
			w.Ops = append(w.Ops, genWrite(r, c, w, hot, ids))
		}
	}
	// minimisation: keep only the listed generated operations (indexes into the
	// full list); everything else about the run stays as the seed made it
	lastGenOps = len(w.Ops)
	if keepOps != nil {
		var kept []*WOp
		for i, o := range w.Ops {
			// dropping a create would change what later writes mean (auto-creation)
			if keepOps[i] || o.Kind == "create" {
				kept = append(kept, o)
			}
		}
		w.Ops = kept
	}
	w.Node.BackgroundSync = r.Pct(c.BgSyncPct)
	w.Node.WALRotateInterval = 1 + r.Intn(5)
	w.Node.DisableVarComp = r.Pct(15)
	w.Sim = simrt.Config{Seed: seed ^ 0xABCDEF, PreemptPct: 0, ShuffleMap: r.Pct(50)}
	// the scanner reads files in chunks of recordsPerRead records (8192 in
	// production: no generated history ever fills one chunk, so the chunk
	// boundary code in readForward/readBackward would never run); small chunk
	// sizes in 3 runs of 5, drawn from a stream of their own
	if k := []int{0, 0, 2, 3, 16}[simrt.NewRand(seed^0x5eedc0de).Intn(5)]; k > 0 {
		// keep a whole-year scan below ~20000 reads (every read is a scheduling
		// step): fine timeframes get proportionally larger chunks
		for _, b := range w.Buckets {
			slots := int(366 * 24 * time.Hour / b.TFDur())
			for slots/k > 20000 {
				k *= 2
			}
		}
		if k < 8192 {
			w.Knobs["recordsPerRead"] = k
		}
	}
	// the production depth (three 1,000,000-slot channels, ~60 MB zeroed per node
	// start) is sampled in 1 run of 12; it is semantically neutral for these
	// workloads but dominates the cost when 16 workers run side by side
	switch r.Intn(12) {
	case 0:
		w.Knobs["WriteChannelCommandDepth"] = 1000000
	case 1, 2, 3, 4, 5:
		w.Knobs["WriteChannelCommandDepth"] = 4096
	default:
		w.Knobs["WriteChannelCommandDepth"] = 1024
	}
	return w
}

func genRecs(r *simrt.Rand, c *GenCfg, b *Bucket, hot []int64, ids *idGen, n int) []Rec {
	recs := make([]Rec, n)
	for i := range recs {
		recs[i] = Rec{T: genTime(r, b, c, hot), ID: ids.next()}
	}
	if !r.Pct(c.UnsortedPct) {
		sort.SliceStable(recs, func(i, j int) bool { return recs[i].T < recs[j].T })
	}
	return recs
}

func genWrite(r *simrt.Rand, c *GenCfg, w *Workload, hot map[*Bucket][]int64, ids *idGen) *WOp {
	b := w.Buckets[r.Intn(len(w.Buckets))]
	n := 1 + r.Intn(c.MaxRows)
	gc, gh := c, hot[b]
	if r.Pct(c.BigRowsPct) {
		n = 100 + r.Intn(60)
		if r.Pct(60) {
			// a large request for ONE year file (the writer batches 100 or more
			// commands per file through its buffered block writer), most rows on a few
			// intervals that come back again and again, usually not in time order
			n = 110 + r.Intn(200)
			y := c.Years[r.Intn(len(c.Years))]
			c2 := *c
			c2.Years = []int{y}
			c2.HotPct = 75
			if c.UnsortedPct > 0 || r.Pct(50) {
				c2.UnsortedPct = 70
			}
			var h2 []int64
			for _, t := range hot[b] {
				if t >= yearStart(y) && t < yearStart(y+1) {
					h2 = append(h2, t)
				}
			}
			for len(h2) < 6 {
				h2 = append(h2, yearStart(y)+int64(1+r.Intn(300))*24*int64(time.Hour)+int64(r.Intn(86400))*1e9)
			}
			gc, gh = &c2, h2
		}
	}
	op := &WOp{Kind: "write"}
	wr := &WriteReq{Variable: b.Variable, Parts: []*BucketWrite{{B: b, Recs: genRecs(r, gc, b, gh, ids, n)}}}
	op.W = append(op.W, wr)
	if r.Pct(c.MultiPct) && len(w.Buckets) > 1 {
		// a second WriteRequest in the same MultiWriteRequest, for another bucket
		b2 := w.Buckets[r.Intn(len(w.Buckets))]
		if b2 != b {
			op.W = append(op.W, &WriteReq{Variable: b2.Variable,
				Parts: []*BucketWrite{{B: b2, Recs: genRecs(r, c, b2, hot[b2], ids, 1+r.Intn(c.MaxRows))}}})
		}
	}
	return op
}
