package harness

import (
	"github.com/alpacahq/marketstore/v4/zzverif/simos"
	"github.com/alpacahq/marketstore/v4/zzverif/simrt"
)

// runPlain starts a node on a fresh simulated disk inside a new simulation and
// runs f as the root task.
func runPlain(w *Workload, f func(n *Node)) (*simos.FS, *simrt.Sim) {
	fs := simos.New()
	fs.MkdirAll(dataRoot, 0o755)
	simos.Cur = fs
	applyKnobs(w.Knobs)
	s := simrt.Run(w.Sim, func() {
		n, err := StartNode(dataRoot, w.Node)
		if err != nil {
			panic(err)
		}
		f(n)
	})
	return fs, s
}
