package harness

import (
	"encoding/binary"
	"fmt"
	"sort"
	"strings"
	"time"

	"github.com/alpacahq/marketstore/v4/executor"
	mio "github.com/alpacahq/marketstore/v4/utils/io"
	"github.com/alpacahq/marketstore/v4/zzverif/simos"
	"github.com/alpacahq/marketstore/v4/zzverif/simrt"
)

// ---------------------------------------------------------------------------
// C06 (WAL damage), C28 (WAL record round trip), C34 (crash during recovery).
// All start from a recorded lifetime of the real server and build images on
// which the real startup replay runs.
// ---------------------------------------------------------------------------

// walRec is one record of a WAL file, located by walking the documented
// format (docs/design/durable_writes_design.txt): MID byte, then TGDATA
// {len int64, data, md5}, TXNINFO {tgid int64, dest int8, status int8} or
// STATUS {file int8, replay int8, owner int64}.
type walRec struct {
	mid        byte
	start, end int64
	tgid       int64
	dest, stat byte
	data       []byte // TGDATA payload (tgid..wtsets)
}

func parseWAL(b []byte) []walRec {
	var out []walRec
	off := int64(0)
	n := int64(len(b))
	for off < n {
		r := walRec{mid: b[off], start: off}
		switch b[off] {
		case 0:
			if off+9 > n {
				return out
			}
			l := int64(binary.LittleEndian.Uint64(b[off+1:]))
			if l < 8 || off+9+l+16 > n {
				return out
			}
			r.data = b[off+9 : off+9+l]
			r.tgid = int64(binary.LittleEndian.Uint64(r.data))
			r.end = off + 9 + l + 16
		case 1:
			if off+11 > n {
				return out
			}
			r.tgid = int64(binary.LittleEndian.Uint64(b[off+1:]))
			r.dest, r.stat = b[off+9], b[off+10]
			r.end = off + 11
		case 2:
			if off+11 > n {
				return out
			}
			r.end = off + 11
		default:
			return out
		}
		out = append(out, r)
		off = r.end
	}
	return out
}

// tgInfo is one transaction group in a WAL with its byte ranges.
type tgInfo struct {
	rec       walRec
	commitEnd int64 // end of its WAL COMMITCOMPLETE record (0 if none)
	req       *WriteReq
}

// walOnlyImage builds the image "WAL synced, primary data writes missing":
// every operation of the lifetime except writes of record data into .bin
// files (file creation, headers and sizing are kept).
func walOnlyImage(lt *lifetime, upto int) *simos.FS {
	img := lt.base.Clone()
	for i := 0; i < upto && i < len(lt.log); i++ {
		op := lt.log[i]
		if !op.Mutating() {
			continue
		}
		if op.Kind == simos.OpWrite && strings.HasSuffix(op.Path, ".bin") && strings.Contains(op.Site, "WriteBufferToFile") {
			continue
		}
		if op.Kind == simos.OpWrite && strings.HasSuffix(op.Path, ".bin") && strings.Contains(op.Chain, "buffile") {
			continue
		}
		img.Apply(op)
	}
	return img
}

// walWorkload: writes only, one client, no background writer: one WriteReq =
// one transaction group, in order.
func walWorkload(seed uint64, tier string, adversarial bool) *Workload {
	r := simrt.NewRand(seed ^ 0x0606)
	c := &GenCfg{TFs: []string{"1H", "1H", "1D", "4H", "30Min", "5Min", "1Min"}, MinBuckets: 1, MaxBuckets: 3, VarPct: 45,
		MinOps: 1, MaxOps: 7, MaxRows: 5, BigRowsPct: 5, MultiPct: 20, SleepPct: 0, RestartPct: 0, QueryPct: 0,
		PreCreate: true, AvoidKnown: true, AllTypes: true, Years: []int{2021, 2022}, BgSyncPct: 0, MaxSleep: time.Second, HotPct: 70, UnsortedPct: 20}
	if tier == "thorough" {
		c.MaxOps = 12
	}
	w := Gen(seed, c)
	w.Node.BackgroundSync = false
	if adversarial {
		// long symbol / attribute names (long WAL key paths), many columns, names
		// up to the header's 32 bytes, empty-ish and large payloads
		for bi, b := range w.Buckets {
			switch r.Intn(4) {
			case 0:
				b.Sym = b.Sym + strings.Repeat("S", 40+r.Intn(180))
			case 1:
				b.Attr = b.Attr + strings.Repeat("a", 30+r.Intn(200))
			}
			if r.Pct(40) {
				n := 20 + r.Intn(120)
				for j := 0; j < n; j++ {
					nm := fmt.Sprintf("c%d_%d_", bi, j) + genName(r, r.Intn(24))
					if len(nm) > 32 {
						nm = nm[:32]
					}
					b.Cols = append(b.Cols, Col{Name: nm, Typ: allTypes[r.Intn(len(allTypes))]})
				}
			}
		}
	}
	return w
}

// runWalLifetime runs the workload (creates, global sync, writes) and returns
// the lifetime, the final live rows per bucket and the WAL path.
func runWalLifetime(w *Workload, res *Result) (*lifetime, map[string][]OutRow, string, *Model) {
	fs := simos.New()
	fs.MkdirAll(dataRoot, 0o755)
	model := NewModel()
	taint := map[string]string{}
	// insert a global sync after the creates so that bucket files are durable
	n := 0
	for n < len(w.Ops) && w.Ops[n].Kind == "create" {
		n++
	}
	ops := append([]*WOp{}, w.Ops[:n]...)
	ops = append(ops, &WOp{Kind: "syncfs"})
	w.Ops = append(ops, w.Ops[n:]...)
	lifetimeWantFinal = true
	lt := runLifetime(fs, w, 0, 0, model, taint)
	lifetimeWantFinal = false
	res.SimSeconds += lt.sim.VirtualElapsed().Seconds()
	if lt.start != nil {
		res.Count("lifetime-start-failed: "+normMsg(fmt.Sprint(lt.start.Panic)), 1)
		return nil, nil, "", nil
	}
	if lt.sim.Err != nil {
		res.Count("lifetime-sim-error: "+normMsg(lt.sim.Err.Error()), 1)
		return nil, nil, "", nil
	}
	// final model + live rows
	for i := lt.from; i < lt.to; i++ {
		op := w.Ops[i]
		if !lt.marks[i].ok {
			continue
		}
		switch op.Kind {
		case "create":
			model.Create(op.B)
		case "write":
			model.ApplyWrite(op.W...)
		}
	}
	walPath := ""
	for _, op := range lt.log {
		if op.Kind == simos.OpCreate && strings.HasSuffix(op.Path, ".walfile") {
			walPath = op.Path
			break
		}
	}
	return lt, nil, walPath, model
}

// tgLayout pairs the TGDATA records of the WAL with the write requests that
// produced them (k-th record = k-th acknowledged request with records).
func tgLayout(w *Workload, lt *lifetime, wal []byte) []tgInfo {
	recs := parseWAL(wal)
	var reqs []*WriteReq
	for i := lt.from; i < lt.to; i++ {
		if w.Ops[i].Kind == "write" && lt.marks[i].ok {
			for _, wr := range w.Ops[i].W {
				n := 0
				for _, p := range wr.Parts {
					n += len(p.Recs)
				}
				if n > 0 {
					reqs = append(reqs, wr)
				}
			}
		}
	}
	var out []tgInfo
	k := 0
	for i, rc := range recs {
		if rc.mid != 0 {
			continue
		}
		ti := tgInfo{rec: rc}
		for _, r2 := range recs[i+1:] {
			if r2.mid == 1 && r2.tgid == rc.tgid && r2.dest == 0 && r2.stat == 2 {
				ti.commitEnd = r2.end
				break
			}
		}
		if k < len(reqs) {
			ti.req = reqs[k]
		}
		k++
		out = append(out, ti)
	}
	if k != len(reqs) {
		return nil // layout assumption broken (should not happen without a background writer)
	}
	return out
}

type damage struct {
	kind  string
	first int64 // first damaged byte offset
	bytes []byte
	note  string
}

func damages(r *simrt.Rand, wal []byte, tgs []tgInfo, tier string) []damage {
	var out []damage
	n := int64(len(wal))
	// truncation at every offset (exhaustive for short logs, else every record
	// boundary +-2 and a stratified sample)
	offs := map[int64]bool{}
	if n <= 700 || tier == "thorough" && n <= 4000 {
		for o := int64(0); o <= n; o++ {
			offs[o] = true
		}
	} else {
		for _, rc := range parseWAL(wal) {
			for d := int64(-2); d <= 2; d++ {
				if rc.start+d >= 0 && rc.start+d <= n {
					offs[rc.start+d] = true
				}
				if rc.start+9+d <= n {
					offs[rc.start+9+d] = true
				}
			}
		}
		for i := 0; i < 200; i++ {
			offs[r.Int63n(n+1)] = true
		}
	}
	var ol []int64
	for o := range offs {
		ol = append(ol, o)
	}
	sort.Slice(ol, func(i, j int) bool { return ol[i] < ol[j] })
	for _, o := range ol {
		out = append(out, damage{kind: "truncate", first: o, bytes: append([]byte{}, wal[:o]...)})
	}
	// bit flips: every byte of every record header (MID, length / tgid fields,
	// checksum) and sampled payload bytes
	flipAt := map[int64]bool{}
	for _, rc := range parseWAL(wal) {
		lim := rc.start + 11
		if rc.mid == 0 {
			lim = rc.start + 25
		}
		for o := rc.start; o < lim && o < n; o++ {
			flipAt[o] = true
		}
		if rc.mid == 0 {
			for o := rc.end - 16; o < rc.end; o++ {
				flipAt[o] = true
			}
			for i := 0; i < 6; i++ {
				flipAt[rc.start+25+r.Int63n(maxI64(rc.end-16-rc.start-25, 1))] = true
			}
		}
	}
	var fl []int64
	for o := range flipAt {
		if o >= 0 && o < n {
			fl = append(fl, o)
		}
	}
	sort.Slice(fl, func(i, j int) bool { return fl[i] < fl[j] })
	for _, o := range fl {
		bits := []uint{uint(r.Intn(8))}
		if tier == "thorough" {
			bits = []uint{0, 7, uint(1 + r.Intn(6))}
		}
		for _, bit := range bits {
			b := append([]byte{}, wal...)
			b[o] ^= 1 << bit
			out = append(out, damage{kind: "bitflip", first: o, bytes: b, note: fmt.Sprintf("bit %d", bit)})
		}
	}
	// garbage inserted at record boundaries and inside records
	for _, rc := range parseWAL(wal) {
		for _, o := range []int64{rc.start, rc.start + (rc.end-rc.start)/2} {
			g := make([]byte, 1+r.Intn(64))
			for i := range g {
				g[i] = byte(r.Intn(256))
			}
			if r.Pct(30) {
				for i := range g {
					g[i] = 0xFF
				}
			}
			b := append(append(append([]byte{}, wal[:o]...), g...), wal[o:]...)
			out = append(out, damage{kind: "insert", first: o, bytes: b, note: fmt.Sprintf("%d bytes", len(g))})
		}
	}
	// boundary values in length fields: the length of every TGDATA record is
	// overwritten, and a bare TGDATA header (message id 0 + length) is inserted at
	// every record boundary and at the end of the file, with values around the
	// limits a reader may compute with (zero, +-1, int32/int64 extremes, the file
	// size and its safety multiple, values that overflow when an offset is added)
	le := func(v int64) []byte {
		b := make([]byte, 8)
		for i := 0; i < 8; i++ {
			b[i] = byte(uint64(v) >> (8 * uint(i)))
		}
		return b
	}
	const maxI = int64(^uint64(0) >> 1)
	extremes := func(off int64) []int64 {
		return []int64{0, 1, -1, 8, maxI, maxI - 1, maxI - off, maxI - off - 1, maxI - off - 8, maxI - off - 16, maxI - off - 17, maxI - off - 25,
			-maxI - 1, 1<<31 - 1, 1 << 31, 1 << 32, n, n - off, n - off - 9, n - off + 1, 1000 * n, 1000*n - 1, 1 << 40, 1 << 62}
	}
	for _, rc := range parseWAL(wal) {
		if rc.mid == 0 && rc.start+9 <= n {
			for _, v := range extremes(rc.start + 9) {
				b := append([]byte{}, wal...)
				copy(b[rc.start+1:rc.start+9], le(v))
				out = append(out, damage{kind: "length", first: rc.start + 1, bytes: b, note: fmt.Sprintf("tg length := %d", v)})
			}
		}
	}
	var bounds []int64
	for _, rc := range parseWAL(wal) {
		bounds = append(bounds, rc.start)
	}
	bounds = append(bounds, n)
	for _, o := range bounds {
		ex := extremes(o + 9)
		picks := ex
		if tier != "thorough" && len(bounds) > 4 {
			picks = nil
			for i := 0; i < 6; i++ {
				picks = append(picks, ex[r.Intn(len(ex))])
			}
		}
		for _, v := range picks {
			g := append([]byte{0}, le(v)...)
			for i, nx := 0, r.Intn(12); i < nx; i++ {
				g = append(g, byte(r.Intn(256)))
			}
			b := append(append(append([]byte{}, wal[:o]...), g...), wal[o:]...)
			out = append(out, damage{kind: "fake-header", first: o, bytes: b, note: fmt.Sprintf("tgdata header with length %d", v)})
		}
	}
	// a TG record duplicated right after itself; two adjacent TGs swapped
	for i, t := range tgs {
		end := t.commitEnd
		if end == 0 {
			end = t.rec.end
		}
		seg := wal[t.rec.start:end]
		b := append(append(append([]byte{}, wal[:end]...), seg...), wal[end:]...)
		out = append(out, damage{kind: "duplicate", first: end, bytes: b, note: fmt.Sprintf("tg %d", i)})
		if i+1 < len(tgs) && tgs[i+1].commitEnd > 0 && t.commitEnd > 0 {
			a0, a1 := t.rec.start, tgs[i+1].rec.start
			b1 := tgs[i+1].commitEnd
			sw := append([]byte{}, wal[:a0]...)
			sw = append(sw, wal[a1:b1]...)
			sw = append(sw, wal[a0:a1]...)
			sw = append(sw, wal[b1:]...)
			out = append(out, damage{kind: "swap", first: a0, bytes: sw, note: fmt.Sprintf("tg %d,%d", i, i+1)})
		}
	}
	return out
}

func maxI64(a, b int64) int64 {
	if a > b {
		return a
	}
	return b
}

func c06Engine() *Engine {
	return &Engine{Name: "CRASH", Run: func(seed uint64, tier string, res *Result) {
		r := simrt.NewRand(seed ^ 0x6006)
		w := walWorkload(seed, tier, r.Pct(35))
		// in a quarter of the runs the log ends with a checkpoint (background writer
		// on, one pause over the 5-minute checkpoint period at the end): damage that
		// leaves the checkpoint's COMMITCOMPLETE record unreadable - in particular a
		// cut between its PREPARING and COMMITCOMPLETE records - must not stop replay
		// from applying the transactions before it
		ckptAtEnd := r.Pct(25)
		if ckptAtEnd {
			w.Node.BackgroundSync = true
			w.Node.WALRotateInterval = 5
			w.Ops = append(w.Ops, &WOp{Kind: "sleep", D: 5*time.Minute + 10*time.Second})
		}
		res.Runs++
		lt, _, walPath, model := runWalLifetime(w, res)
		if lt == nil || walPath == "" {
			res.Count("lifetime-unusable", 1)
			return
		}
		if len(lt.taint) > 0 {
			res.Count("tainted-history-skipped", 1)
			return
		}
		base := walOnlyImage(lt, len(lt.log))
		wal, _ := base.FileBytes(walPath)
		tgs := tgLayout(w, lt, wal)
		if len(tgs) == 0 {
			res.Count("no-tg", 1)
			return
		}
		var buckets []*Bucket
		for _, mb := range model.B {
			buckets = append(buckets, mb.B)
		}
		sort.Slice(buckets, func(i, j int) bool { return buckets[i].Key() < buckets[j].Key() })
		at := lt.timeAt(len(lt.log))
		ds := damages(r, wal, tgs, tier)
		res.Count("tgs", int64(len(tgs)))
		// the image drops every primary data write, which contradicts a checkpoint
		// that is still readable: damages behind the start of the last completed
		// checkpoint's COMMITCOMPLETE record, and damages other than cuts, are not
		// evaluated on such a log
		ckptC := int64(-1)
		for _, rc := range parseWAL(wal) {
			if rc.mid == 1 && rc.dest == 1 && rc.stat == 2 {
				ckptC = rc.start
			}
		}
		if ckptAtEnd && ckptC < 0 {
			res.Count("no-checkpoint-in-log", 1)
		}
		for di, d := range ds {
			if pastDeadline(res) {
				break
			}
			if ckptC >= 0 && (d.kind != "truncate" || d.first > ckptC) {
				// (only a cut makes the checkpoint record unreadable for sure: replay
				// scans on past a damaged record in the middle)
				res.Count("damage-leaving-the-checkpoint-readable-skipped", 1)
				continue
			}
			if ckptC >= 0 {
				res.Count("damage-in-checkpointed-log", 1)
			}
			img := base.Clone()
			img.SetFileBytes(walPath, d.bytes)
			if verboseLog {
				fmt.Printf("  DAMAGE %s at %d (%s)\n", d.kind, d.first, d.note)
			}
			rc := recoverOn(img, w, buckets, seed+uint64(di), at, nil)
			res.Evals++
			res.Count("damage-"+d.kind, 1)
			res.AddDistinct(fmt.Sprintf("%s@%d/%d/%s/tgs%d", d.kind, d.first, len(wal), d.note, len(tgs)))
			mk := func(class, sig, detail string) {
				res.AddViolation(&Violation{Prop: "C06", Class: class, Sig: "C06|" + sig, Seed: seed,
					Detail: fmt.Sprintf("WAL of %d bytes with %d transaction groups, damage: %s at offset %d (%s): %s", len(wal), len(tgs), d.kind, d.first, d.note, detail),
					Replay: map[string]interface{}{"engine": "wal-damage", "damage": d.kind, "offset": d.first, "note": d.note, "workload": w.Describe()}})
			}
			where := damageWhere(d, tgs, int64(len(wal)))
			if rc.Start != nil {
				msg := fmt.Sprint(rc.Start.Panic)
				mk("restart-failed", "restart-failed|"+d.kind+"|"+where+"|"+cause(msg, rc.Start.Stack), "startup failed: "+firstLine(msg)+" ["+stackFrames(rc.Start.Stack, 3)+"]")
				continue
			}
			if rc.SimErr != nil {
				mk("restart-hang", "restart-hang|"+d.kind+"|"+where, "startup did not finish: "+rc.SimErr.Error())
				continue
			}
			obs := map[string]*observed{}
			qerr := false
			for _, b := range buckets {
				if e := rc.QErr[b.Key()]; e != nil {
					mk("query-error", "query-error|"+d.kind+"|"+where+"|"+normMsg(e.Error()), "after replay the query of "+b.Key()+" fails: "+firstLine(e.Error()))
					qerr = true
					break
				}
				obs[b.Key()] = observe(b, rc.Rows[b.Key()])
			}
			if qerr {
				continue
			}
			// which ids may legitimately overwrite an interval: later TGs
			for ti, t := range tgs {
				if t.req == nil {
					continue
				}
				eff := reqEffects(t.req)
				switch {
				case t.commitEnd > 0 && t.commitEnd <= d.first:
					// intact, committed, wholly before the damage: must be applied
					for _, e := range eff {
						o := obs[e.key]
						ok := false
						if e.b.Variable {
							ok = o.varCnt[e.id] > 0
						} else {
							got, have := o.fixed[e.T]
							ok = have && (got == e.id || laterWrites(tgs, ti, e, got))
						}
						if !ok {
							mk("intact-tg-not-applied", "intact-tg-not-applied|"+d.kind+"|"+where,
								fmt.Sprintf("transaction group %d (bytes %d..%d, committed at %d) lies wholly before the damage but its record id %d in %s is not visible after replay", ti, t.rec.start, t.rec.end, t.commitEnd, e.id, e.key))
							break
						}
					}
				case t.rec.start < d.first && d.first < t.rec.end && d.kind != "duplicate" && d.kind != "swap":
					// the damage is inside this TG's data record: nothing of it may be written
					for _, e := range eff {
						o := obs[e.key]
						vis := false
						if e.b.Variable {
							vis = o.varCnt[e.id] > 0
						} else {
							vis = o.fixed[e.T] == e.id
						}
						if vis {
							mk("damaged-tg-applied", "damaged-tg-applied|"+d.kind+"|"+where,
								fmt.Sprintf("transaction group %d (bytes %d..%d) contains the damage but its record id %d in %s was written by replay", ti, t.rec.start, t.rec.end, e.id, e.key))
							break
						}
					}
				}
			}
		}
		res.Sample(map[string]interface{}{"seed": seed, "wal_bytes": len(wal), "transaction_groups": len(tgs), "damaged_images": len(ds), "ops": w.Describe()})
	}}
}

// laterWrites: did a TG after ti write the same fixed interval with id got?
func laterWrites(tgs []tgInfo, ti int, e effect, got int64) bool {
	for _, t := range tgs[ti+1:] {
		if t.req == nil {
			continue
		}
		for _, e2 := range reqEffects(t.req) {
			if e2.key == e.key && e2.T == e.T && e2.id == got {
				return true
			}
		}
	}
	return false
}

// damageWhere names the region the first damaged byte falls into.
func damageWhere(d damage, tgs []tgInfo, n int64) string {
	if d.first < 11 {
		return "in-file-status"
	}
	for _, t := range tgs {
		switch {
		case d.first == t.rec.start:
			return "at-tg-start"
		case d.first > t.rec.start && d.first < t.rec.start+9:
			return "in-tg-length"
		case d.first >= t.rec.start+9 && d.first < t.rec.end-16:
			return "in-tg-data"
		case d.first >= t.rec.end-16 && d.first < t.rec.end:
			return "in-tg-checksum"
		}
	}
	if d.first >= n {
		return "at-end"
	}
	return "in-txninfo"
}

// ---- C28 ----

func c28Engine() *Engine {
	return &Engine{Name: "CRASH", Run: func(seed uint64, tier string, res *Result) {
		r := simrt.NewRand(seed ^ 0x2828)
		w := walWorkload(seed, tier, r.Pct(70))
		if r.Pct(25) {
			// a large payload: >= 64 KiB in one transaction
			b := w.Buckets[0]
			var recs []Rec
			id := int64(700000)
			base := time.Date(2021, 5, 1, 0, 0, 0, 0, time.UTC).UnixNano()
			nrec := 65536/(8*len(b.Cols)+8) + 50
			for i := 0; i < nrec; i++ {
				id++
				t := base + int64(i)*int64(b.TFDur())
				if b.Variable {
					t = base + int64(i)*1000
				}
				if time.Unix(0, t).UTC().Year() != 2021 {
					break
				}
				recs = append(recs, Rec{T: t, ID: id})
			}
			w.Ops = append(w.Ops, &WOp{Kind: "write", W: []*WriteReq{{Variable: b.Variable, Parts: []*BucketWrite{{B: b, Recs: recs}}}}})
			// thousands of commands in one request need the production channel depth
			// (without a background writer nothing drains the channel before the flush)
			w.Knobs["WriteChannelCommandDepth"] = 1000000
		}
		recreated := map[string]bool{}
		if r.Pct(30) {
			// a bucket is destroyed and created again under the same key with other
			// columns while the server keeps running, then written to: the WAL record
			// of that write must carry the new schema
			old := w.Buckets[r.Intn(len(w.Buckets))]
			nb := &Bucket{Sym: old.Sym, TF: old.TF, Attr: old.Attr, Variable: old.Variable}
			switch r.Intn(3) {
			case 0: // same names, other types
				for _, c := range old.Cols {
					t := c.Typ
					if c.Name != "Id" {
						t = allTypes[r.Intn(len(allTypes))]
					}
					nb.Cols = append(nb.Cols, Col{Name: c.Name, Typ: t})
				}
			case 1: // other names and count
				nb.Cols = []Col{{Name: "Id", Typ: "i8"}}
				for j, nx := 0, r.Intn(5); j < nx; j++ {
					nb.Cols = append(nb.Cols, Col{Name: fmt.Sprintf("N%d", j), Typ: allTypes[r.Intn(len(allTypes))]})
				}
			default: // same columns, rotated order
				k := 1 + r.Intn(len(old.Cols))
				nb.Cols = append(append([]Col{}, old.Cols[k%len(old.Cols):]...), old.Cols[:k%len(old.Cols)]...)
			}
			w.Ops = append(w.Ops, &WOp{Kind: "destroy", Key: old.Key()}, &WOp{Kind: "create", B: nb})
			base := time.Date(2021, 7, 1, 0, 0, 0, 0, time.UTC).UnixNano()
			for k, nw := 0, 1+r.Intn(3); k < nw; k++ {
				var recs []Rec
				for i, nr := 0, 1+r.Intn(4); i < nr; i++ {
					recs = append(recs, Rec{T: base + int64(k*10+i)*int64(nb.TFDur()) + int64(r.Intn(1000)), ID: int64(900000 + k*100 + i)})
				}
				if !nb.Variable {
					for i := range recs {
						recs[i].T = floorDiv(recs[i].T, 1e9) * 1e9
					}
				}
				w.Ops = append(w.Ops, &WOp{Kind: "write", W: []*WriteReq{{Variable: nb.Variable, Parts: []*BucketWrite{{B: nb, Recs: recs}}}}})
			}
			recreated[old.Key()] = true
			res.Count("bucket-recreated-with-other-schema", 1)
		}
		res.Runs++
		lt, _, walPath, model := runWalLifetime(w, res)
		if lt == nil || walPath == "" {
			res.Count("lifetime-unusable", 1)
			return
		}
		var buckets []*Bucket
		for _, mb := range model.B {
			buckets = append(buckets, mb.B)
		}
		sort.Slice(buckets, func(i, j int) bool { return buckets[i].Key() < buckets[j].Key() })
		at := lt.timeAt(len(lt.log))
		// live result of the uncrashed run (the primary write path), read from the
		// running server at the end of the lifetime
		live := &recovered{Rows: lt.finalRows, QErr: lt.finalErr}
		if live.Rows == nil {
			res.Count("no-live-rows", 1)
			return
		}
		// for every transaction group: the image "WAL fsynced up to and including
		// this TG, no primary data write of any TG" -> replay must rebuild exactly
		// what the live path wrote for the TGs so far. Checked at the last TG
		// (all TGs replayed) and at each TG boundary via prefix images.
		var fsyncs []int
		for i, op := range lt.log {
			if op.Kind == simos.OpSync && op.Path == walPath && strings.Contains(op.Site, "FlushCommandsToWAL") {
				fsyncs = append(fsyncs, i+1)
			}
		}
		res.Count("tgs", int64(len(fsyncs)))
		if len(fsyncs) == 0 {
			return
		}
		// (1) decode every TG with the real parser: data shapes == bucket schema
		img := walOnlyImage(lt, len(lt.log))
		wal, _ := img.FileBytes(walPath)
		tgs := tgLayout(w, lt, wal)
		for ti, t := range tgs {
			func() {
				defer func() {
					if rr := recover(); rr != nil {
						res.AddViolation(&Violation{Prop: "C28", Class: "decode-panic", Sig: "C28|decode-panic|" + normMsg(fmt.Sprint(rr)), Seed: seed,
							Detail: fmt.Sprintf("executor.ParseTGData panics on transaction group %d written by the server itself: %v", ti, rr), Replay: map[string]interface{}{"workload": w.Describe()}})
					}
				}()
				_, wts := executor.ParseTGData(t.rec.data, dataRoot)
				res.Evals++
				for _, wt := range wts {
					key, b := bucketOfPath(buckets, wt.FilePath)
					// the schema that counts is the one the bucket had when the request
					// was issued (a bucket may have been destroyed and created again)
					if t.req != nil {
						for _, p := range t.req.Parts {
							if k2, b2 := bucketOfPath([]*Bucket{p.B}, wt.FilePath); b2 != nil {
								key, b = k2, b2
							}
						}
					}
					if b == nil {
						res.AddViolation(&Violation{Prop: "C28", Class: "decode-path", Sig: "C28|decode-path", Seed: seed,
							Detail: fmt.Sprintf("transaction group %d decodes to target file %s which is no bucket of the history", ti, clip(wt.FilePath)), Replay: map[string]interface{}{"workload": w.Describe()}})
						return
					}
					wantVar := b.Variable
					if (wt.RecordType == mio.VARIABLE) != wantVar {
						res.AddViolation(&Violation{Prop: "C28", Class: "decode-rectype", Sig: "C28|decode-rectype", Seed: seed,
							Detail: fmt.Sprintf("transaction group %d: record type of %s decodes as %v", ti, key, wt.RecordType), Replay: map[string]interface{}{"workload": w.Describe()}})
						return
					}
					var got []Col
					for _, ds := range wt.DataShapes {
						if ds.Name == "Epoch" {
							continue
						}
						tsx, _ := mio.ToTypeStr(ds.Type)
						got = append(got, Col{Name: ds.Name, Typ: tsx})
					}
					if d := sameSchema(b.Cols, got); d != "" {
						res.AddViolation(&Violation{Prop: "C28", Class: "decode-schema", Sig: "C28|decode-schema|" + schemaDiffClass(d), Seed: seed,
							Detail: fmt.Sprintf("transaction group %d: column schema of %s decoded from the WAL differs from the bucket's: %s", ti, key, d), Replay: map[string]interface{}{"workload": w.Describe()}})
						return
					}
				}
			}()
		}
		// (2) replay == live primary write, at the end and at sampled TG boundaries
		points := []int{len(lt.log)}
		for _, f := range fsyncs {
			if r.Pct(40) {
				points = append(points, f)
			}
		}
		for _, upto := range points {
			im := walOnlyImage(lt, upto)
			rc := recoverOn(im, w, buckets, seed+uint64(upto), at, nil)
			res.Evals++
			res.AddDistinct(fmt.Sprintf("tgs%d/upto%d/%d", len(fsyncs), upto, len(buckets)))
			if rc.Start != nil {
				msg := fmt.Sprint(rc.Start.Panic)
				res.AddViolation(&Violation{Prop: "C28", Class: "replay-failed", Sig: "C28|replay-failed|" + cause(msg, rc.Start.Stack), Seed: seed,
					Detail: "replay of an undamaged WAL written by the server fails: " + firstLine(msg) + " [" + stackFrames(rc.Start.Stack, 3) + "]", Replay: map[string]interface{}{"workload": w.Describe(), "upto": upto}})
				continue
			}
			if upto != len(lt.log) {
				continue // partial: only "replay succeeds" is checked here
			}
			for _, b := range buckets {
				key := b.Key()
				if recreated[key] {
					// the image replays the transactions of the destroyed incarnation into
					// the new files (Destroy is not logged): not this property's subject
					res.Count("recreated-bucket-not-compared-after-replay", 1)
					continue
				}
				if _, t := lt.taint[key]; t {
					continue
				}
				if e := rc.QErr[key]; e != nil {
					if live.QErr[key] != nil {
						continue
					}
					res.AddViolation(&Violation{Prop: "C28", Class: "replay-query-error", Sig: "C28|replay-query-error|" + normMsg(e.Error()), Seed: seed,
						Detail: "after replay the query of " + key + " fails: " + firstLine(e.Error()), Replay: map[string]interface{}{"workload": w.Describe()}})
					continue
				}
				if i, same := rowsEqual(live.Rows[key], rc.Rows[key]); !same {
					res.AddViolation(&Violation{Prop: "C28", Class: "replay-differs", Sig: "C28|replay-differs|" + kindOf(b), Seed: seed,
						Detail: fmt.Sprintf("bucket %s rebuilt by WAL replay alone differs from what the live write path stored (first difference at row %d: live %s, replay %s)", key, i, descRows(live.Rows[key]), descRows(rc.Rows[key])),
						Replay: map[string]interface{}{"workload": w.Describe()}})
				}
			}
		}
		res.Sample(map[string]interface{}{"seed": seed, "transaction_groups": len(fsyncs), "ops": w.Describe()})
	}}
}

func bucketOfPath(bs []*Bucket, p string) (string, *Bucket) {
	for _, b := range bs {
		if strings.HasPrefix(p, dataRoot+"/"+b.Key()+"/") {
			return b.Key(), b
		}
	}
	return "", nil
}

func init() {
	Engines["C06"] = c06Engine()
	Engines["C28"] = c28Engine()
}
