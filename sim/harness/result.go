package harness

import (
	"encoding/json"
	"fmt"
	"os"
	"sort"
	"strings"

	"github.com/alpacahq/marketstore/v4/zzverif/simrt"
)

// minimisation state (set from the worker's flags)
var (
	keepOps    map[int]bool // nil = keep every generated operation
	lastGenOps int          // number of operations the generator produced for the current seed
)

// Violation is one oracle failure.
type Violation struct {
	Prop   string `json:"property"`
	Class  string `json:"class"`
	Sig    string `json:"signature"` // stable identity (known-findings key)
	Detail string `json:"detail"`
	Seed   uint64 `json:"seed"`
	// Replay: everything needed to reproduce (engine specific)
	Replay map[string]interface{} `json:"replay,omitempty"`
	Known  bool                   `json:"known,omitempty"`
	What   string                 `json:"what,omitempty"`
}

// Result is what one worker invocation reports (JSON on stdout / file).
type Result struct {
	Prop        string                 `json:"property"`
	Engine      string                 `json:"engine"`
	Seeds       []uint64               `json:"seeds"`
	Runs        int                    `json:"runs"`
	Evals       int                    `json:"evaluations"`
	Distinct    map[string]bool        `json:"-"`
	DistinctN   int                    `json:"distinct_nontrivial"`
	DistinctKey []string               `json:"distinct_keys,omitempty"`
	Violations  []*Violation           `json:"violations"`
	KnownSeen   map[string]int         `json:"known_seen"`
	Counters    map[string]int64       `json:"counters"`
	Samples     []interface{}          `json:"samples"`
	SimSeconds  float64                `json:"sim_seconds"`
	WallSeconds float64                `json:"wall_seconds"`
	HarnessErr  []string               `json:"harness_errors"`
	Extra       map[string]interface{} `json:"extra,omitempty"`
}

func NewResult(prop, engine string) *Result {
	return &Result{Prop: prop, Engine: engine, Distinct: map[string]bool{}, KnownSeen: map[string]int{},
		Counters: map[string]int64{}, Extra: map[string]interface{}{}}
}

func (r *Result) Count(name string, d int64) { r.Counters[name] += d }

func (r *Result) AddDistinct(key string) { r.Distinct[key] = true }

func (r *Result) Sample(s interface{}) {
	if len(r.Samples) < 3 {
		r.Samples = append(r.Samples, s)
	}
}

func (r *Result) Harness(format string, a ...interface{}) {
	if len(r.HarnessErr) < 20 {
		r.HarnessErr = append(r.HarnessErr, fmt.Sprintf(format, a...))
	}
}

// Known findings -----------------------------------------------------------

type KnownFinding struct {
	Prop   string `json:"property"`
	Sig    string `json:"signature"`
	What   string `json:"what"`
	Status string `json:"status"` // open | fixed
	Commit string `json:"commit,omitempty"`
}

var knownFindings []KnownFinding

// LoadKnown reads known_findings.jsonl (read-only at run time).
func LoadKnown(path string) error {
	knownFindings = nil
	b, err := os.ReadFile(path)
	if err != nil {
		if os.IsNotExist(err) {
			return nil
		}
		return err
	}
	for _, line := range strings.Split(string(b), "\n") {
		line = strings.TrimSpace(line)
		if line == "" || strings.HasPrefix(line, "#") || strings.HasPrefix(line, "fixed:") {
			// "fixed: property=<id> <commit> <what failed>" entries suppress nothing
			continue
		}
		var k KnownFinding
		if err := json.Unmarshal([]byte(line), &k); err != nil {
			return fmt.Errorf("known_findings: %v in %q", err, line)
		}
		knownFindings = append(knownFindings, k)
	}
	return nil
}

// matchKnown reports whether the violation is a listed open finding. A
// signature in the file may end in '*' to match a prefix.
func matchKnown(v *Violation) *KnownFinding {
	for i := range knownFindings {
		k := &knownFindings[i]
		if k.Status != "open" || k.Prop != v.Prop {
			continue
		}
		if k.Sig == v.Sig || globMatch(k.Sig, v.Sig) {
			return k
		}
	}
	return nil
}

// globMatch matches s against a pattern in which '*' stands for any (possibly
// empty) run of characters; everything else is literal.
func globMatch(pat, s string) bool {
	if !strings.Contains(pat, "*") {
		return pat == s
	}
	parts := strings.Split(pat, "*")
	if !strings.HasPrefix(s, parts[0]) {
		return false
	}
	s = s[len(parts[0]):]
	for i := 1; i < len(parts)-1; i++ {
		j := strings.Index(s, parts[i])
		if j < 0 {
			return false
		}
		s = s[j+len(parts[i]):]
	}
	return strings.HasSuffix(s, parts[len(parts)-1])
}

// AddViolation records a violation; a listed known finding is only counted.
// At most maxPerSig unlisted violations are kept per signature.
func (r *Result) AddViolation(v *Violation) {
	if v.Class == "task-panic" && strings.Contains(v.Sig, " []") {
		// no marketstore frame on the panicking stack: the harness itself is at
		// fault — trouble (exit 2), never a verdict about the property
		r.Harness("seed %d: panic outside marketstore code: %s", v.Seed, v.Detail)
		return
	}
	if k := matchKnown(v); k != nil {
		r.KnownSeen[k.Sig+" :: "+k.What]++
		return
	}
	n := 0
	for _, o := range r.Violations {
		if o.Sig == v.Sig {
			n++
		}
	}
	r.Count("violations-total", 1)
	if n >= 2 || len(r.Violations) >= 40 {
		return
	}
	if v.Replay == nil {
		v.Replay = map[string]interface{}{}
	}
	// what the minimiser can shrink: generated operations, preemption budget
	v.Replay["gen_ops"] = lastGenOps
	v.Replay["preemptions"] = simrt.MaxPreemptSeen
	if keepOps != nil {
		var k []int
		for i := range keepOps {
			k = append(k, i)
		}
		sort.Ints(k)
		v.Replay["keep_ops"] = k
	}
	if simrt.GlobalMaxPreempt >= 0 {
		v.Replay["max_preempt"] = simrt.GlobalMaxPreempt
	}
	if simrt.GlobalSkipPreempt > 0 {
		v.Replay["skip_preempt"] = simrt.GlobalSkipPreempt
	}
	r.Violations = append(r.Violations, v)
}

func (r *Result) Finish() {
	r.DistinctN = len(r.Distinct)
	keys := make([]string, 0, len(r.Distinct))
	for k := range r.Distinct {
		keys = append(keys, k)
	}
	sort.Strings(keys)
	if len(keys) > 60000 {
		keys = keys[:60000]
	}
	r.DistinctKey = keys
}

func (r *Result) WriteJSON(path string) error {
	r.Finish()
	b, err := json.Marshal(r)
	if err != nil {
		return err
	}
	if path == "" || path == "-" {
		fmt.Println(string(b))
		return nil
	}
	return os.WriteFile(path, b, 0o644)
}
