#!/bin/bash
# Build the framework from files on disk only (offline): the instrumenter and
# the simulator binary for /repo's current tree.
set -euo pipefail
cd "$(dirname "$0")"
export GOFLAGS=-mod=mod GOPROXY=off GOSUMDB=off GOTOOLCHAIN=local
mkdir -p bin evidence replays
(cd tools && go build -o ../bin/instrument ./instrument)
./build.sh >/dev/null
echo "setup ok: $(./build.sh)"
