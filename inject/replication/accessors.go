package replication

import "sort"

// VerifRegistered (verification harness only, mapped in through the build
// overlay): the replica addresses registered right now, read under the
// registry's own lock.
func (rs *GRPCReplicationServer) VerifRegistered() []string {
	rs.mu.Lock()
	defer rs.mu.Unlock()
	out := make([]string, 0, len(rs.StreamChannels))
	for a := range rs.StreamChannels {
		out = append(out, a)
	}
	sort.Strings(out)
	return out
}
