package di

import "github.com/alpacahq/marketstore/v4/replication"

// Added by the verification overlay only (never part of the repository).

// VerifSetReplicationSender injects a replication sender built on the
// simulated transport (the production wiring opens a TCP listener).
func (c *Container) VerifSetReplicationSender(s *replication.Sender) { c.replicationSender = s }
