package executor

// Added by the verification overlay only (never part of the repository).

// VerifResetGlobals resets process-wide state that a real process restart
// would reset: the "a background WAL writer exists" flag.
func VerifResetGlobals() { haveWALWriter = false }

// VerifHaveWALWriter exposes the flag for probes.
func VerifHaveWALWriter() bool { return haveWALWriter }
