#!/bin/bash
# tools/sweep.sh <seed> [seed...]: every claimed property's quick check at the given VERIF_SEED values against /repo,
# evidence and replays to scratch; prints one line per check plus any VIOLATION / CHECK-TROUBLE lines.
cd "$(dirname "$0")/.."
PROPS=$(python3 -c "import json; print(' '.join(c['property_id'] for c in json.load(open('MANIFEST.json'))['checks']))")
for s in "$@"; do
  for p in $PROPS; do
    OUT=$(VERIF_SEED=$s VERIF_EVIDENCE_DIR=/dev/shm/sweep-ev VERIF_REPLAY_DIR=/dev/shm/sweep-rp nice ./vcheck $p 2>&1); RC=$?
    echo "seed=$s $p rc=$RC $(echo "$OUT" | grep -E '^C[0-9]+: runs=' | cut -c1-160)"
    echo "$OUT" | grep -E 'VIOLATION|CHECK-TROUBLE|BUILD-ERROR|^  ' | cut -c1-400
  done
done
echo "SWEEP DONE"
