#!/bin/bash
# sigs.sh <sim> <prop> <n> [seedbase]: run 16 workers x n seeds without known file, print signature histogram
SIM=$1; P=$2; N=$3; B=${4:-1000}
mkdir -p /dev/shm/sigs; rm -f /dev/shm/sigs/*.json
for w in $(seq 0 15); do
  GOMAXPROCS=1 GOGC=off GOMEMLIMIT=1500MiB $SIM run -prop $P -seed $((B + w*100000)) -n $N -out /dev/shm/sigs/$w.json >/dev/null 2>&1 &
done
wait
python3 - <<'PY'
import json,glob,collections
c=collections.Counter(); ex={}; runs=0
for f in glob.glob('/dev/shm/sigs/*.json'):
    d=json.load(open(f)); runs+=d.get('runs',0)
    for v in d.get('violations') or []:
        s=v.get('signature'); c[s]+=v.get('count',1) if isinstance(v.get('count',1),int) else 1; ex.setdefault(s,(v.get('seed'),v.get('detail','')[:260]))
print('runs',runs)
for s,n in c.most_common(60): print(n,s,'| seed',ex[s][0],'|',ex[s][1])
PY
