// Command instrument rewrites marketstore packages so that every source of
// nondeterminism (files, clock, goroutines, channels, locks, map order) goes
// through the simulator packages simos / simrt.  It never edits the repository:
// rewritten copies are written to -out and an overlay.json for `go build
// -overlay` is produced.
//
// The rewrites are typed and generic (they do not match marketstore
// identifiers), see DESIGN.md §2.1.
package main

import (
	"bytes"
	"encoding/json"
	"flag"
	"fmt"
	"go/ast"
	"go/constant"
	"go/format"
	"go/token"
	"go/types"
	"os"
	"path/filepath"
	"sort"
	"strconv"
	"strings"

	"golang.org/x/tools/go/ast/astutil"
	"golang.org/x/tools/go/packages"
)

const modPath = "github.com/alpacahq/marketstore/v4"

var (
	simosPath = modPath + "/zzverif/simos"
	simrtPath = modPath + "/zzverif/simrt"
)

// redirect[pkgpath][name] = target package ("simos"/"simrt")
var redirect = map[string]map[string]string{
	"os": {
		"OpenFile": "simos", "Open": "simos", "Create": "simos", "Remove": "simos", "RemoveAll": "simos",
		"Rename": "simos", "Mkdir": "simos", "MkdirAll": "simos", "Stat": "simos", "Lstat": "simos",
		"ReadFile": "simos", "WriteFile": "simos", "ReadDir": "simos", "Truncate": "simos", "File": "simos",
	},
	"io/ioutil": {"ReadFile": "simos", "WriteFile": "simos", "ReadDir": "simos"},
	"syscall":   {"Sync": "simos"},
	"time": {
		"Now": "simrt", "Since": "simrt", "Until": "simrt", "Sleep": "simrt", "After": "simrt", "Tick": "simrt",
		"NewTicker": "simrt", "NewTimer": "simrt", "AfterFunc": "simrt", "Ticker": "simrt", "Timer": "simrt",
	},
	"sync": {
		"Mutex": "simrt", "RWMutex": "simrt", "WaitGroup": "simrt", "Once": "simrt", "Cond": "simrt", "NewCond": "simrt",
	},
}

// Names in os/syscall that mutate or block and are NOT redirected: using one is
// a hole in the simulation, reported as an error (exit 2 by the driver).
var dangerous = map[string]map[string]bool{
	"os": {"Chmod": true, "Chown": true, "Chtimes": true, "Link": true, "Symlink": true, "CreateTemp": true,
		"MkdirTemp": true, "NewFile": true, "Pipe": true, "DirFS": true, "CopyFS": true, "OpenRoot": true},
	"syscall": {"Fsync": true, "Fdatasync": true, "Open": true, "Write": true, "Pwrite": true, "Unlink": true,
		"Rename": true, "Mmap": true, "Ftruncate": true},
	"io/ioutil": {"TempFile": true, "TempDir": true},
}

// knobs: named integer constants turned into per-run values (T5).
var knobs = map[string]bool{
	"WriteChannelCommandDepth":            true,
	"defaultReplicationStreamChannelSize": true,
	"defaultSenderChannelSize":            true,
	"recordsPerRead":                      true,
}

// sharedReadContext: the node is read, not written (not the left-hand side of an
// assignment, not the operand of ++/--, not under &).
func sharedReadContext(c *astutil.Cursor) bool {
	switch p := c.Parent().(type) {
	case *ast.AssignStmt:
		for _, l := range p.Lhs {
			if l == c.Node() {
				return false
			}
		}
	case *ast.IncDecStmt:
		return false
	case *ast.UnaryExpr:
		if p.Op == token.AND {
			return false
		}
	case *ast.ValueSpec:
		for _, nm := range p.Names {
			if ast.Node(nm) == c.Node() {
				return false
			}
		}
	}
	return true
}

// yieldThenValue builds func() T { simrt.Yield("shared-read"); return x }().
func yieldThenValue(typ string, x ast.Expr) ast.Expr {
	lit := &ast.FuncLit{
		Type: &ast.FuncType{Params: &ast.FieldList{}, Results: &ast.FieldList{List: []*ast.Field{{Type: ast.NewIdent(typ)}}}},
		Body: &ast.BlockStmt{List: []ast.Stmt{
			&ast.ExprStmt{X: call("simrt", "Yield", &ast.BasicLit{Kind: token.STRING, Value: strconv.Quote("shared-read")})},
			&ast.ReturnStmt{Results: []ast.Expr{x}},
		}},
	}
	return &ast.CallExpr{Fun: lit}
}

type fileCtx struct {
	pkg      *packages.Package
	file     *ast.File
	needOS   bool
	needRT   bool
	rangeK   map[*ast.RangeStmt]string // "map" | "chan"
	constArg map[ast.Expr]bool
	problems *[]string
	fset     *token.FileSet
	tmp      int
}

func main() {
	repo := flag.String("repo", "/repo", "repository root")
	out := flag.String("out", "", "output directory for rewritten files")
	simDir := flag.String("sim", "/verif/sim", "harness source directory mapped to <repo>/zzverif")
	pkgsFlag := flag.String("pkgs", "", "comma separated package dirs relative to repo")
	injectDir := flag.String("inject", "", "directory of files added to repo packages (T6 accessors), laid out like the repo")
	flag.Parse()
	if *out == "" || *pkgsFlag == "" {
		fmt.Fprintln(os.Stderr, "usage: instrument -repo R -out O -pkgs a,b,c")
		os.Exit(2)
	}
	var patterns []string
	for _, p := range strings.Split(*pkgsFlag, ",") {
		patterns = append(patterns, "./"+strings.TrimPrefix(p, "./"))
	}
	cfg := &packages.Config{
		Mode: packages.NeedName | packages.NeedFiles | packages.NeedCompiledGoFiles | packages.NeedSyntax |
			packages.NeedTypes | packages.NeedTypesInfo | packages.NeedImports,
		Dir: *repo,
		Env: append(os.Environ(), "GOFLAGS=-mod=mod", "GOPROXY=off", "GOSUMDB=off"),
	}
	pkgs, err := packages.Load(cfg, patterns...)
	if err != nil {
		fmt.Fprintln(os.Stderr, "load:", err)
		os.Exit(2)
	}
	bad := false
	for _, p := range pkgs {
		for _, e := range p.Errors {
			fmt.Fprintf(os.Stderr, "package %s: %v\n", p.PkgPath, e)
			bad = true
		}
	}
	if bad {
		os.Exit(2)
	}
	overlay := map[string]string{}
	var problems []string
	stats := map[string]int{}
	for _, p := range pkgs {
		for i, f := range p.Syntax {
			fn := p.CompiledGoFiles[i]
			if !strings.HasPrefix(fn, *repo+"/") {
				continue
			}
			rel := strings.TrimPrefix(fn, *repo+"/")
			fc := &fileCtx{pkg: p, file: f, problems: &problems, fset: p.Fset,
				rangeK: map[*ast.RangeStmt]string{}, constArg: map[ast.Expr]bool{}}
			changed := fc.rewrite(stats)
			if !changed {
				continue
			}
			var buf bytes.Buffer
			if err := format.Node(&buf, p.Fset, f); err != nil {
				fmt.Fprintf(os.Stderr, "print %s: %v\n", rel, err)
				os.Exit(2)
			}
			dst := filepath.Join(*out, rel)
			os.MkdirAll(filepath.Dir(dst), 0o755)
			if err := os.WriteFile(dst, buf.Bytes(), 0o644); err != nil {
				fmt.Fprintln(os.Stderr, err)
				os.Exit(2)
			}
			overlay[fn] = dst
		}
	}
	// harness packages: every .go file under simDir is mapped to <repo>/zzverif/...
	filepath.Walk(*simDir, func(path string, info os.FileInfo, err error) error {
		if err != nil || info.IsDir() || !strings.HasSuffix(path, ".go") {
			return nil
		}
		rel, _ := filepath.Rel(*simDir, path)
		overlay[filepath.Join(*repo, "zzverif", rel)] = path
		return nil
	})
	if *injectDir != "" {
		filepath.Walk(*injectDir, func(path string, info os.FileInfo, err error) error {
			if err != nil || info.IsDir() || !strings.HasSuffix(path, ".go") {
				return nil
			}
			rel, _ := filepath.Rel(*injectDir, path)
			dst := filepath.Join(*repo, filepath.Dir(rel), "zzverif_"+filepath.Base(rel))
			overlay[dst] = path
			return nil
		})
	}
	ov := map[string]interface{}{"Replace": overlay}
	b, _ := json.MarshalIndent(ov, "", " ")
	if err := os.WriteFile(filepath.Join(*out, "overlay.json"), b, 0o644); err != nil {
		fmt.Fprintln(os.Stderr, err)
		os.Exit(2)
	}
	keys := make([]string, 0, len(stats))
	for k := range stats {
		keys = append(keys, k)
	}
	sort.Strings(keys)
	for _, k := range keys {
		fmt.Printf("rewrite %-12s %d\n", k, stats[k])
	}
	if len(problems) > 0 {
		for _, p := range problems {
			fmt.Fprintln(os.Stderr, "PROBLEM:", p)
		}
		os.Exit(3)
	}
}

func (fc *fileCtx) pos(n ast.Node) string { return fc.fset.Position(n.Pos()).String() }

func (fc *fileCtx) newTmp(prefix string) string {
	fc.tmp++
	return fmt.Sprintf("_sim%s%d", prefix, fc.tmp)
}

func sel(pkg, name string) *ast.SelectorExpr {
	return &ast.SelectorExpr{X: ast.NewIdent(pkg), Sel: ast.NewIdent(name)}
}

func call(pkg, name string, args ...ast.Expr) *ast.CallExpr {
	return &ast.CallExpr{Fun: sel(pkg, name), Args: args}
}

func isSimCall(e ast.Expr, pkg string, names ...string) (*ast.CallExpr, string) {
	c, ok := e.(*ast.CallExpr)
	if !ok {
		return nil, ""
	}
	s, ok := c.Fun.(*ast.SelectorExpr)
	if !ok {
		return nil, ""
	}
	x, ok := s.X.(*ast.Ident)
	if !ok || x.Name != pkg {
		return nil, ""
	}
	for _, n := range names {
		if s.Sel.Name == n {
			return c, n
		}
	}
	return nil, ""
}

func (fc *fileCtx) rewrite(stats map[string]int) bool {
	info := fc.pkg.TypesInfo
	changed := false
	// pass 0: collect type facts on the untouched tree
	ast.Inspect(fc.file, func(n ast.Node) bool {
		switch x := n.(type) {
		case *ast.RangeStmt:
			if t := info.TypeOf(x.X); t != nil {
				switch t.Underlying().(type) {
				case *types.Map:
					fc.rangeK[x] = "map"
				case *types.Chan:
					fc.rangeK[x] = "chan"
				}
			}
		case *ast.GoStmt:
			for _, a := range x.Call.Args {
				if tv, ok := info.Types[a]; ok && (tv.Value != nil || tv.IsNil()) {
					fc.constArg[a] = true
				}
			}
		}
		return true
	})

	post := func(c *astutil.Cursor) bool {
		switch n := c.Node().(type) {
		case *ast.SelectorExpr:
			id, ok := n.X.(*ast.Ident)
			if !ok {
				return true
			}
			pn, ok := info.Uses[id].(*types.PkgName)
			if !ok {
				return true
			}
			ip := pn.Imported().Path()
			if tgt, ok := redirect[ip][n.Sel.Name]; ok {
				n.X = ast.NewIdent(tgt)
				if tgt == "simos" {
					fc.needOS = true
					if ip == "syscall" && n.Sel.Name == "Sync" {
						n.Sel = ast.NewIdent("SyncFS")
					}
				} else {
					fc.needRT = true
				}
				stats["T1-"+ip]++
				changed = true
			} else if dangerous[ip][n.Sel.Name] {
				*fc.problems = append(*fc.problems, fmt.Sprintf("%s: %s.%s is not simulated", fc.pos(n), ip, n.Sel.Name))
			}
		case *ast.GoStmt:
			c.Replace(fc.rewriteGo(n))
			stats["T2-go"]++
			changed = true
		case *ast.SendStmt:
			// inside a select CommClause this is post-processed by the SelectStmt case
			c.Replace(&ast.ExprStmt{X: call("simrt", "Send", n.Chan, n.Value)})
			fc.needRT = true
			stats["T3-send"]++
			changed = true
		case *ast.UnaryExpr:
			if n.Op == token.ARROW {
				c.Replace(call("simrt", "Recv", n.X))
				fc.needRT = true
				stats["T3-recv"]++
				changed = true
			}
		case *ast.AssignStmt:
			if len(n.Lhs) == 2 && len(n.Rhs) == 1 {
				if cl, _ := isSimCall(n.Rhs[0], "simrt", "Recv"); cl != nil {
					cl.Fun.(*ast.SelectorExpr).Sel = ast.NewIdent("Recv2")
				}
			}
		case *ast.ValueSpec:
			if len(n.Names) == 2 && len(n.Values) == 1 {
				if cl, _ := isSimCall(n.Values[0], "simrt", "Recv"); cl != nil {
					cl.Fun.(*ast.SelectorExpr).Sel = ast.NewIdent("Recv2")
				}
			}
		case *ast.CallExpr:
			if id, ok := n.Fun.(*ast.Ident); ok && id.Name == "close" && len(n.Args) == 1 {
				if _, isB := info.Uses[id].(*types.Builtin); isB {
					n.Fun = sel("simrt", "Close")
					fc.needRT = true
					stats["T3-close"]++
					changed = true
				}
			}
			// len(ch) on a channel observes state that other tasks change: it becomes a
			// scheduling point (func() int { simrt.Yield("chan-len"); return len(ch) }()),
			// so that check-then-act sequences on a channel's fill level are explored
			if id, ok := n.Fun.(*ast.Ident); ok && id.Name == "len" && len(n.Args) == 1 {
				if _, isB := info.Uses[id].(*types.Builtin); isB {
					if tv, ok := info.Types[n.Args[0]]; ok && tv.Type != nil {
						if _, isCh := tv.Type.Underlying().(*types.Chan); isCh {
							lit := &ast.FuncLit{
								Type: &ast.FuncType{Params: &ast.FieldList{}, Results: &ast.FieldList{List: []*ast.Field{{Type: ast.NewIdent("int")}}}},
								Body: &ast.BlockStmt{List: []ast.Stmt{
									&ast.ExprStmt{X: call("simrt", "Yield", &ast.BasicLit{Kind: token.STRING, Value: strconv.Quote("chan-len")})},
									&ast.ReturnStmt{Results: []ast.Expr{&ast.CallExpr{Fun: ast.NewIdent("len"), Args: n.Args}}},
								}},
							}
							c.Replace(&ast.CallExpr{Fun: lit})
							fc.needRT = true
							stats["T3-chanlen"]++
							changed = true
						}
					}
				}
			}
		case *ast.SelectStmt:
			c.Replace(fc.rewriteSelect(n))
			fc.needRT = true
			stats["T3-select"]++
			changed = true
		case *ast.RangeStmt:
			switch fc.rangeK[n] {
			case "map":
				if r := fc.rewriteMapRange(n); r != nil {
					c.Replace(r)
					fc.needRT = true
					stats["T4-maprange"]++
					changed = true
				}
			case "chan":
				c.Replace(fc.rewriteChanRange(n))
				fc.needRT = true
				stats["T3-chanrange"]++
				changed = true
			}
		case *ast.StarExpr:
			// T7: reading a shared flag or counter through a pointer (`*wf.shutdownPending`)
			// is a scheduling point, like a read of a package-level variable below
			if tv, ok := info.Types[n]; ok && tv.Type != nil && tv.IsValue() && sharedReadContext(c) {
				if bt, ok := tv.Type.(*types.Basic); ok && bt.Info()&(types.IsBoolean|types.IsInteger) != 0 && bt.Info()&types.IsUntyped == 0 {
					if _, isSel := n.X.(*ast.SelectorExpr); isSel {
						c.Replace(yieldThenValue(bt.Name(), n))
						fc.needRT = true
						stats["T7-shared-read"]++
						changed = true
					}
				}
			}
		case *ast.Ident:
			// T7: a read of a package-level variable of boolean or integer type (a flag
			// such as haveWALWriter that goroutines use to signal each other without
			// synchronisation) is a scheduling point, so that check-then-act on it is explored
			if obj, ok := info.Uses[n].(*types.Var); ok && !obj.IsField() && obj.Parent() == fc.pkg.Types.Scope() && c.Name() != "Sel" && sharedReadContext(c) {
				if bt, ok := obj.Type().(*types.Basic); ok && bt.Info()&(types.IsBoolean|types.IsInteger) != 0 {
					c.Replace(yieldThenValue(bt.Name(), n))
					fc.needRT = true
					stats["T7-shared-read"]++
					changed = true
					return true
				}
			}
			// T5: uses of selected package-level integer constants become per-run knobs
			if knobs[n.Name] && c.Name() != "Sel" {
				if obj, ok := info.Uses[n].(*types.Const); ok && obj.Parent() == fc.pkg.Types.Scope() &&
					obj.Val().Kind() == constant.Int {
					var repl ast.Expr = call("simrt", "KnobVal",
						&ast.BasicLit{Kind: token.STRING, Value: strconv.Quote(n.Name)}, ast.NewIdent(n.Name))
					// an untyped constant takes the type of its context (e.g. int32 in
					// `recordsPerRead * iop.RecordLen`); KnobVal returns int, so convert
					if tv, ok := info.Types[n]; ok {
						if bt, ok := tv.Type.(*types.Basic); ok && bt.Info()&types.IsInteger != 0 &&
							bt.Info()&types.IsUntyped == 0 && bt.Kind() != types.Int {
							repl = &ast.CallExpr{Fun: ast.NewIdent(bt.Name()), Args: []ast.Expr{repl}}
						}
					}
					c.Replace(repl)
					fc.needRT = true
					stats["T5-knob"]++
					changed = true
				}
			}
		}
		return true
	}
	astutil.Apply(fc.file, nil, post)
	if !changed {
		return false
	}
	if fc.needOS {
		astutil.AddNamedImport(fc.fset, fc.file, "simos", simosPath)
	}
	if fc.needRT {
		astutil.AddNamedImport(fc.fset, fc.file, "simrt", simrtPath)
	}
	// drop imports that became unused
	for _, ip := range []string{"os", "io/ioutil", "syscall", "time", "sync"} {
		fc.dropIfUnused(ip)
	}
	return true
}

func (fc *fileCtx) dropIfUnused(ip string) {
	var spec *ast.ImportSpec
	for _, s := range fc.file.Imports {
		if p, _ := strconv.Unquote(s.Path.Value); p == ip {
			spec = s
		}
	}
	if spec == nil {
		return
	}
	name := filepath.Base(ip)
	if spec.Name != nil {
		name = spec.Name.Name
		if name == "_" || name == "." {
			return
		}
	}
	used := false
	ast.Inspect(fc.file, func(n ast.Node) bool {
		if s, ok := n.(*ast.SelectorExpr); ok {
			if id, ok := s.X.(*ast.Ident); ok && id.Name == name && id.Obj == nil {
				// may be a false positive when a local variable shadows the
				// package name; then the import simply stays (harmless if used)
				used = true
			}
		}
		return !used
	})
	if !used {
		if spec.Name != nil {
			astutil.DeleteNamedImport(fc.fset, fc.file, spec.Name.Name, ip)
		} else {
			astutil.DeleteImport(fc.fset, fc.file, ip)
		}
	}
}

// go f(a, b) → { _f := f; _a0 := a; _a1 := b; simrt.Go(func(){ _f(_a0,_a1) }) }
func (fc *fileCtx) rewriteGo(g *ast.GoStmt) ast.Stmt {
	fc.needRT = true
	var stmts []ast.Stmt
	fn := g.Call.Fun
	if _, isLit := fn.(*ast.FuncLit); !isLit {
		t := fc.newTmp("f")
		stmts = append(stmts, &ast.AssignStmt{Lhs: []ast.Expr{ast.NewIdent(t)}, Tok: token.DEFINE, Rhs: []ast.Expr{fn}})
		fn = ast.NewIdent(t)
	}
	var args []ast.Expr
	for _, a := range g.Call.Args {
		if fc.constArg[a] {
			args = append(args, a)
			continue
		}
		t := fc.newTmp("a")
		stmts = append(stmts, &ast.AssignStmt{Lhs: []ast.Expr{ast.NewIdent(t)}, Tok: token.DEFINE, Rhs: []ast.Expr{a}})
		args = append(args, ast.NewIdent(t))
	}
	inner := &ast.CallExpr{Fun: fn, Args: args, Ellipsis: g.Call.Ellipsis}
	if g.Call.Ellipsis != token.NoPos {
		inner.Ellipsis = 1
	}
	lit := &ast.FuncLit{Type: &ast.FuncType{Params: &ast.FieldList{}}, Body: &ast.BlockStmt{List: []ast.Stmt{&ast.ExprStmt{X: inner}}}}
	stmts = append(stmts, &ast.ExprStmt{X: call("simrt", "Go", lit)})
	return &ast.BlockStmt{List: stmts}
}

// select → switch simrt.Select(hasDefault, cases...)
func (fc *fileCtx) rewriteSelect(s *ast.SelectStmt) ast.Stmt {
	var pre []ast.Stmt
	var caseArgs []ast.Expr
	var clauses []ast.Stmt
	hasDefault := false
	idx := 0
	for _, cl := range s.Body.List {
		cc := cl.(*ast.CommClause)
		if cc.Comm == nil {
			hasDefault = true
			clauses = append(clauses, &ast.CaseClause{List: nil, Body: cc.Body})
			continue
		}
		cv := fc.newTmp("c")
		var bind ast.Stmt
		switch st := cc.Comm.(type) {
		case *ast.ExprStmt:
			if c, name := isSimCall(st.X, "simrt", "Recv", "Send"); c != nil {
				if name == "Recv" {
					pre = append(pre, &ast.AssignStmt{Lhs: []ast.Expr{ast.NewIdent(cv)}, Tok: token.DEFINE,
						Rhs: []ast.Expr{call("simrt", "RecvCase", c.Args[0])}})
				} else {
					pre = append(pre, &ast.AssignStmt{Lhs: []ast.Expr{ast.NewIdent(cv)}, Tok: token.DEFINE,
						Rhs: []ast.Expr{call("simrt", "SendCase", c.Args[0], c.Args[1])}})
				}
			} else {
				*fc.problems = append(*fc.problems, fc.pos(s)+": unsupported select comm")
			}
		case *ast.AssignStmt:
			c, name := isSimCall(st.Rhs[0], "simrt", "Recv", "Recv2")
			if c == nil {
				*fc.problems = append(*fc.problems, fc.pos(s)+": unsupported select comm")
				break
			}
			pre = append(pre, &ast.AssignStmt{Lhs: []ast.Expr{ast.NewIdent(cv)}, Tok: token.DEFINE,
				Rhs: []ast.Expr{call("simrt", "RecvCase", c.Args[0])}})
			m := "Val"
			if name == "Recv2" {
				m = "Val2"
			}
			bind = &ast.AssignStmt{Lhs: st.Lhs, Tok: st.Tok,
				Rhs: []ast.Expr{&ast.CallExpr{Fun: &ast.SelectorExpr{X: ast.NewIdent(cv), Sel: ast.NewIdent(m)}}}}
		default:
			*fc.problems = append(*fc.problems, fc.pos(s)+": unsupported select comm")
		}
		caseArgs = append(caseArgs, ast.NewIdent(cv))
		body := cc.Body
		if bind != nil {
			body = append([]ast.Stmt{bind}, body...)
		}
		clauses = append(clauses, &ast.CaseClause{
			List: []ast.Expr{&ast.BasicLit{Kind: token.INT, Value: strconv.Itoa(idx)}}, Body: body})
		idx++
	}
	hd := "false"
	if hasDefault {
		hd = "true"
	} else {
		// a select whose cases all return is a terminating statement; the switch
		// that replaces it is one only with a default clause (never taken: Select
		// returns the index of a listed case)
		clauses = append(clauses, &ast.CaseClause{List: nil, Body: []ast.Stmt{
			&ast.ExprStmt{X: &ast.CallExpr{Fun: ast.NewIdent("panic"), Args: []ast.Expr{&ast.BasicLit{Kind: token.STRING, Value: strconv.Quote("simrt: select returned no listed case")}}}}}})
	}
	args := append([]ast.Expr{ast.NewIdent(hd)}, caseArgs...)
	sw := &ast.SwitchStmt{Tag: call("simrt", "Select", args...), Body: &ast.BlockStmt{List: clauses}}
	return &ast.BlockStmt{List: append(pre, sw)}
}

func isBlank(e ast.Expr) bool {
	if e == nil {
		return true
	}
	id, ok := e.(*ast.Ident)
	return ok && id.Name == "_"
}

// for k, v := range m {B} → for _, k := range simrt.MapKeys(m) { v, ok := m[k]; if !ok {continue}; B }
func (fc *fileCtx) rewriteMapRange(r *ast.RangeStmt) ast.Stmt {
	if r.Tok == token.ASSIGN {
		// rare; leave untouched but report
		*fc.problems = append(*fc.problems, fc.pos(r)+": map range with '=' not rewritten")
		return nil
	}
	var pre []ast.Stmt
	mexpr := r.X
	if _, isIdent := mexpr.(*ast.Ident); !isIdent {
		t := fc.newTmp("m")
		pre = append(pre, &ast.AssignStmt{Lhs: []ast.Expr{ast.NewIdent(t)}, Tok: token.DEFINE, Rhs: []ast.Expr{mexpr}})
		mexpr = ast.NewIdent(t)
	}
	keyName := ""
	if !isBlank(r.Key) {
		keyName = r.Key.(*ast.Ident).Name
	} else {
		keyName = fc.newTmp("k")
	}
	okName := fc.newTmp("ok")
	var head []ast.Stmt
	valLhs := ast.Expr(ast.NewIdent("_"))
	if !isBlank(r.Value) {
		valLhs = r.Value
	}
	head = append(head,
		&ast.AssignStmt{Lhs: []ast.Expr{valLhs, ast.NewIdent(okName)}, Tok: token.DEFINE,
			Rhs: []ast.Expr{&ast.IndexExpr{X: mexpr, Index: ast.NewIdent(keyName)}}},
		&ast.IfStmt{Cond: &ast.UnaryExpr{Op: token.NOT, X: ast.NewIdent(okName)},
			Body: &ast.BlockStmt{List: []ast.Stmt{&ast.BranchStmt{Tok: token.CONTINUE}}}},
	)
	loop := &ast.RangeStmt{Key: ast.NewIdent("_"), Value: ast.NewIdent(keyName), Tok: token.DEFINE,
		X:    call("simrt", "MapKeys", mexpr),
		Body: &ast.BlockStmt{List: append(head, r.Body.List...)}}
	if len(pre) == 0 {
		return loop
	}
	return &ast.BlockStmt{List: append(pre, loop)}
}

// for v := range ch {B} → for { v, ok := simrt.Recv2(ch); if !ok {break}; B }
func (fc *fileCtx) rewriteChanRange(r *ast.RangeStmt) ast.Stmt {
	okName := fc.newTmp("ok")
	lhs := ast.Expr(ast.NewIdent("_"))
	if !isBlank(r.Key) {
		lhs = r.Key
	}
	tok := token.DEFINE
	head := []ast.Stmt{
		&ast.AssignStmt{Lhs: []ast.Expr{lhs, ast.NewIdent(okName)}, Tok: tok, Rhs: []ast.Expr{call("simrt", "Recv2", r.X)}},
		&ast.IfStmt{Cond: &ast.UnaryExpr{Op: token.NOT, X: ast.NewIdent(okName)},
			Body: &ast.BlockStmt{List: []ast.Stmt{&ast.BranchStmt{Tok: token.BREAK}}}},
	}
	return &ast.ForStmt{Body: &ast.BlockStmt{List: append(head, r.Body.List...)}}
}

