#!/bin/bash
# Runs the repository's pinned test suite (BASELINE.json command) and prints a pass/fail summary
# against BASELINE.json's stable_pass list.
export GOFLAGS=-mod=mod GOPROXY=off GOSUMDB=off GOTOOLCHAIN=local
OUT=${1:-/tmp/baseline.gotest.json}
(cd /repo && go test -mod=mod -json -vet=off -count=1 -timeout 25m ./... ) > "$OUT" 2>/tmp/baseline.err
python3 - "$OUT" <<'PY'
import json,sys
res={}
for line in open(sys.argv[1]):
    try: e=json.loads(line)
    except Exception: continue
    if e.get('Action') in ('pass','fail','skip') and e.get('Test'):
        res[e['Package']+'::'+e['Test']]=e['Action']
base=json.load(open('/root/.vp/BASELINE.json'))['stable_pass']
bad=[t for t in base if res.get(t)!='pass']
print('baseline tests:',len(base),'passing now:',len(base)-len(bad))
for t in bad[:40]: print('  NOT PASSING:',t,res.get(t))
PY
