#!/usr/bin/env python3
"""raceparse.py <race-log> — summarise Go race detector reports by the pair of innermost
non-runtime frames of the two conflicting accesses."""
import re, sys, collections
MS = 'github.com/alpacahq/marketstore/v4/'
SKIP = ('runtime.', 'sync.', 'sync/atomic.', 'reflect.', 'internal/', 'strings.', 'bytes.', 'sort.', 'fmt.', 'encoding/', 'unicode')

def stacks(report):
    """the two access stacks of a report: list of (func, file:line)"""
    out = []
    blocks = report.split('\n\n')
    for b in blocks[:2]:
        fr = []
        lines = b.split('\n')
        for i, l in enumerate(lines):
            if l.startswith('  ') and not l.startswith('    '):
                loc = lines[i + 1].strip().split(' ')[0] if i + 1 < len(lines) else ''
                fr.append((l.strip(), loc))
        out.append((lines[0] if lines else '', fr))
    return out

def top(fr):
    for f, loc in fr:
        if f.startswith(SKIP):
            continue
        return f, loc
    return fr[0] if fr else ('?', '')

def short(f):
    f = f.replace(MS, '')
    f = re.sub(r'\[go\.shape[^\]]*\]', '', f)
    return re.sub(r'\(\)$', '', f)

def parse(txt):
    reps = txt.split('WARNING: DATA RACE\n')[1:]
    res = []
    for r in reps:
        r = r.split('==================')[0]
        st = stacks(r)
        if len(st) < 2:
            continue
        (h1, f1), (h2, f2) = st
        t1, t2 = top(f1), top(f2)
        res.append({'a': short(t1[0]), 'b': short(t2[0]), 'aloc': t1[1], 'bloc': t2[1],
                    'akind': h1.split(' at ')[0].replace('Previous ', '').lower(), 'bkind': h2.split(' at ')[0].replace('Previous ', '').lower(), 'text': r[:3000]})
    return res

if __name__ == '__main__':
    c = collections.Counter()
    ex = {}
    for r in parse(open(sys.argv[1]).read()):
        k = tuple(sorted([r['a'], r['b']]))
        c[k] += 1
        ex.setdefault(k, r)
    for k, v in c.most_common():
        print(v, k, ex[k]['aloc'], ex[k]['bloc'])
