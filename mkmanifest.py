#!/usr/bin/env python3
"""Regenerates MANIFEST.json from propmeta.py (checks) and the NA table below."""
import json, os, sys
VERIF = os.path.dirname(os.path.abspath(__file__))
sys.path.insert(0, VERIF)
from propmeta import PROPS

NA = {
    "C10": "pure function of its input (tick encode/decode arithmetic): no schedule, clock, I/O, crash or second party in its statement; its observable consequence (stored timestamp precision) is inside C09's oracle",
    "C19": "pure function of (stored rows, SQL statement): nothing for a simulator to control; the stateful half (INSERT durability/visibility) is the write path covered by C01/C07",
    "C20": "as C19: relational evaluation of a statement over stored rows is a pure function; durability of INSERT INTO is C01/C07",
    "C21": "pure function over an in-memory column series (candle aggregation)",
    "C22": "pure function (composition of candle aggregations)",
    "C23": "pure function (scalar aggregates, gap detection)",
    "C27": "pure function (wire-format encode/decode round trip)",
    "C29": "pure function (row serialisation round trip)",
    "C30": "pure function of (timestamp, timeframe, configured zone); UTC instances are exercised incidentally by C08's year-edge histories",
    "C31": "pure function (timeframe arithmetic)",
}
PENDING = "simulation check planned in DESIGN.md but not built yet in this revision"

ids = [json.loads(l)["id"] for l in open(os.path.join(VERIF, "properties.jsonl"))]
checks = []
for pid in ids:
    if pid not in PROPS:
        continue
    m = PROPS[pid]
    checks.append({
        "property_id": pid,
        "quick_cmd": f"./vcheck {pid} --tier quick",
        "thorough_cmd": f"./vcheck {pid} --tier thorough",
        "evidence_file": f"evidence/{pid}.json",
        "replay_cmd_template": "./vcheck replay {path}",
        "engine": m["engine"],
        "level_claimed": {"category": m["level"], "text": m.get("level_text", m["explanation"]), "design_ref": "DESIGN.md §3 " + pid},
        "level_note": "; ".join(m.get("assumptions", [])) or "see DESIGN.md §2",
        "technique": m.get("technique", "deterministic simulation with fault injection: seeded search over schedules / crash images / histories on the real server code"),
    })
na = []
for pid in ids:
    if pid in PROPS:
        continue
    na.append({"property_id": pid, "reason": NA.get(pid, PENDING)})
man = {
    "version": 1,
    "setup_cmd": "./setup.sh",
    "hooks": {
        "guard": "none in /repo: instrumentation is generated at check time into a `go build -overlay` (typed source rewriting of os/time/sync/go/chan/select/map-range to the simulator packages); /repo is never edited by hooks",
        "enable": "./build.sh (tools/instrument -> overlay.json; go build -overlay -modfile from /repo's working tree; content-addressed cache under /verif/.cache)",
        "baseline_off_cmd": "for m in $(cat /w/out/gomods.txt); do MF=$(cd /repo/$m && . /w/out/goenv.sh && gomodflag); (cd /repo/$m && go test $MF -json -vet=off -count=1 -timeout 25m ./...); done",
        "source_commits": [],
        "add_only": True,
    },
    "engines": [
        {"name": "CRASH", "path": "sim/harness/engine_crash.go", "serves_properties": [p for p in ids if p in PROPS and PROPS[p]["engine"] == "CRASH"],
         "kind_free_text": "record one lifetime of the real server on the simulated disk, enumerate every post-crash image (kill: every syscall prefix; power loss: drop/tear sets), run real startup recovery on each"},
        {"name": "MODEL", "path": "sim/harness/engine_model.go", "serves_properties": [p for p in ids if p in PROPS and PROPS[p]["engine"] == "MODEL"],
         "kind_free_text": "fault-free refinement of the real server against the reference model inside the simulator (restarts and timers are generated events)"},
        {"name": "SCHED", "path": "sim/harness/engine_sched.go", "serves_properties": [p for p in ids if p in PROPS and PROPS[p]["engine"] == "SCHED"],
         "kind_free_text": "seeded schedule search: concurrent client tasks against the real server under the baton scheduler with preemption at every yield point"},
        {"name": "REPL", "path": "sim/harness/engine_repl.go", "serves_properties": [p for p in ids if p in PROPS and PROPS[p]["engine"] == "REPL"],
         "kind_free_text": "master + replicas over a simulated stream transport"},
        {"name": "STREAM", "path": "sim/harness/engine_stream.go", "serves_properties": [p for p in ids if p in PROPS and PROPS[p]["engine"] == "STREAM"],
         "kind_free_text": "reader-fault enumeration on the CSV import loop"},
    ],
    "checks": checks,
    "not_applicable": na,
    "notes": "All checks share one simulator binary built from /repo's working tree (see DESIGN.md §2). Exit 2 = check trouble (build/harness), never a verdict.",
}
json.dump(man, open(os.path.join(VERIF, "MANIFEST.json"), "w"), indent=1)
print("checks:", [c["property_id"] for c in checks], "not_applicable:", len(na))
